#!/bin/bash
# ./run_all.sh [tier] : runs every registered check sequentially, prints one line per check
tier=${1:-quick}
cd "$(dirname "$0")"
for id in $(python3 -c "import json;print(' '.join(c['property_id'] for c in json.load(open('MANIFEST.json'))['checks']))"); do
  s=$(date +%s.%N)
  out=$(./check $id --tier $tier 2>&1); rc=$?
  e=$(date +%s.%N)
  printf "%s rc=%d wall=%.1fs %s\n" $id $rc $(echo "$e - $s" | bc) "$(echo "$out" | grep -c '^VIOLATION') violations, $(echo "$out" | grep -c '^KNOWN-FINDING') known"
  if [ $rc -ne 0 ]; then echo "$out" | tail -5 | cut -c1-300; fi
done
