#!/usr/bin/env python3
"""tools/record_seeded.py <pid> <k> <check id>... : copy a confirmed seeded change from /tmp/mut into /verif/seeded/<pid>-m<k>/
and record which of the given checks catch it (applies the patch to /repo, runs the quick checks, reverts)."""
import json, os, shutil, subprocess, sys
pid, k = sys.argv[1], sys.argv[2]
checks = sys.argv[3:] or [pid]
base = os.environ.get("MUTDIR", "/tmp/mut")
tag = os.environ.get("MUTTAG", "")            # e.g. "w2" for the second wave
src = "%s/%s/m%s" % (base, pid, k)
dst = "/verif/seeded/%s-%sm%s" % (pid, tag, k)
os.makedirs(dst, exist_ok=True)
for f in ("patch.diff", "demo.py", "notes.md"):
    shutil.copy(os.path.join(src, f), os.path.join(dst, f))
conf = json.load(open(os.path.join(src, "confirm.json")))
out = subprocess.run(["/verif/tools/try_patch.sh", os.path.join(dst, "patch.diff")] + checks, capture_output=True, text=True).stdout
res = {}
for line in out.splitlines():
    parts = line.split()
    if len(parts) >= 3 and parts[1].startswith("rc="):
        res[parts[0]] = {"rc": int(parts[1][3:]), "violations_reported": int(parts[2][5:]), "first_signature": " ".join(parts[3:])}
notes = open(os.path.join(src, "notes.md")).read()
meta_path = os.path.join(dst, "meta.json")
meta = json.load(open(meta_path)) if os.path.exists(meta_path) else {}
meta.update({
    "property": pid, "mutation": "%sm%s" % (tag, k), "origin": "written by an independent sub-agent that saw only the property text and a scratch worktree",
    "confirmed_in_scratch_worktree": {"demo_exit_clean": conf["demo_clean_rc"], "demo_exit_with_change": conf["demo_mut_rc"],
                                      "suite_passed_with_change": conf["suite_passed"], "suite_failed_with_change": conf["suite_failed"],
                                      "command": "tools/confirm_mut.sh %s %s" % (pid, k)},
    "checks_run": {**meta.get("checks_run", {}), **res},
    "command": "tools/try_patch.sh %s/patch.diff %s" % (dst[len("/verif/"):], " ".join(checks)),
})
json.dump(meta, open(meta_path, "w"), indent=1)
print(pid, "m" + k, {c: (r["rc"], r["first_signature"][:60]) for c, r in res.items()})
