#!/bin/bash
# confirm every produced change; properties in parallel, changes of one property serially (shared worktree)
for p in "$@"; do
  ( for k in 1 2; do [ -f /tmp/mut/$p/m$k/patch.diff ] && [ ! -f /tmp/mut/$p/m$k/confirm.json ] && /verif/tools/confirm_mut.sh $p $k; done ) &
done
wait
