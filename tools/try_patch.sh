#!/bin/bash
# tools/try_patch.sh <patch.diff> <check id>...   : apply a seeded change to /repo, run the given quick checks, revert.
# Prints one line per check: id rc #violations first-signature.  /repo is always restored (git checkout -- .).
patch="$1"; shift
cd /repo || exit 2
if ! git diff --quiet; then echo "/repo has uncommitted changes; refusing" >&2; exit 2; fi
if ! git apply --check "$patch" 2>/dev/null; then echo "PATCH-DOES-NOT-APPLY $patch"; exit 3; fi
git apply "$patch"
trap 'git -C /repo checkout -- . ; git -C /repo clean -fdq -- perception_eval >/dev/null 2>&1' EXIT
cd /verif
for id in "$@"; do
  out=$(VERIF_KEEP_EVIDENCE=1 ./check "$id" --tier "${TIER:-quick}" 2>&1); rc=$?
  sig=$(echo "$out" | grep -m1 'signature=' | sed 's/^ *//' | cut -c1-120)
  echo "$id rc=$rc viol=$(echo "$out" | grep -c '^VIOLATION') $sig"
  if [ "$rc" = 2 ]; then echo "$out" | tail -4 | cut -c1-300; fi
done
