#!/usr/bin/env python3
"""tools/design_table.py : print the rows of DESIGN.md section 11.1 (cases / executions / states / wall) from /verif/evidence/*.json."""
import glob, json, os
for f in sorted(glob.glob("/verif/evidence/C*.json")):
    e = json.load(open(f))
    pid = os.path.basename(f)[:-5]
    s = json.dumps(e)
    def find(d, key):
        if isinstance(d, dict):
            if key in d:
                return d[key]
            for v in d.values():
                r = find(v, key)
                if r is not None:
                    return r
        if isinstance(d, list):
            for v in d:
                r = find(v, key)
                if r is not None:
                    return r
        return None
    print("| %s | %s cases | %s executions | %s compared | %s states (%s non-trivial) | %s s |" % (
        pid, find(e, "evaluations"), find(e, "transitions"), find(e, "traces_validated_against_impl"), find(e, "states"), find(e, "distinct_nontrivial"),
        find(e, "wall_s")))
