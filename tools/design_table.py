#!/usr/bin/env python3
"""tools/design_table.py [thorough_times_file] : print DESIGN.md section 11.1 (quick-tier coverage per check) from /verif/evidence/*.json."""
import glob, json, os, sys
th = {}
if len(sys.argv) > 1 and os.path.exists(sys.argv[1]):
    for l in open(sys.argv[1]):
        p = l.split()
        if len(p) == 3:
            th[p[0]] = p[2]


def find(d, key):
    if isinstance(d, dict):
        if key in d:
            return d[key]
        for v in d.values():
            r = find(v, key)
            if r is not None:
                return r
    if isinstance(d, list):
        for v in d:
            r = find(v, key)
            if r is not None:
                return r
    return None


print("| id | cases | executions of the real seam | compared with the reference | abstract states (non-trivial) | distinct outcomes | quick wall | thorough wall |")
print("|----|------:|------:|------:|------:|------:|------:|------:|")
for f in sorted(glob.glob("/verif/evidence/C*.json")):
    e = json.load(open(f))
    pid = os.path.basename(f)[:-5]
    print("| %s | %s | %s | %s | %s (%s) | %s | %.0f s | %s |" % (
        pid, find(e, "evaluations"), find(e, "transitions"), find(e, "traces_validated_against_impl"), find(e, "states"), find(e, "distinct_nontrivial"),
        find(e, "distinct_outcomes"), float(find(e, "wall_s") or 0), th.get(pid, "-")))
