#!/bin/bash
# tools/try_wt.sh <worktree> <patch.diff> <check id>... : like try_patch.sh, but in a scratch worktree (VERIF_DEV_REPO), so several
# seeded changes can be tried at once and /repo stays untouched. Development aid only; recorded results come from try_patch.sh on /repo.
wt="$1"; patch="$2"; shift 2
git -C $wt checkout -q -- . ; git -C $wt clean -fdq
if ! git -C $wt apply --check "$patch" 2>/dev/null; then echo "PATCH-DOES-NOT-APPLY $patch"; exit 3; fi
git -C $wt apply "$patch"
cd /verif
for id in "$@"; do
  out=$(VERIF_DEV_REPO=$wt ./check "$id" --tier "${TIER:-quick}" 2>&1); rc=$?
  sig=$(echo "$out" | grep -m1 'signature=' | sed 's/^ *//' | cut -c1-120)
  echo "$(basename $(dirname $patch)) $id rc=$rc viol=$(echo "$out" | grep -c '^VIOLATION') $sig"
  if [ "$rc" = 2 ]; then echo "$out" | tail -4 | cut -c1-300; fi
done
git -C $wt checkout -q -- . ; git -C $wt clean -fdq
