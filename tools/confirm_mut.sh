#!/bin/bash
# tools/confirm_mut.sh <pid> <k> [workdir] : independently confirm a seeded change in a scratch worktree:
#   demo passes on the clean tree, fails with the change, the unedited suite still passes with the change.
pid=$1; k=$2; wt=${3:-/tmp/wt_$pid}; d=${MUTDIR:-/tmp/mut}/$pid/m$k
[ -f $d/patch.diff ] || { echo "$pid m$k: no patch"; exit 2; }
git -C $wt checkout -q -- . ; git -C $wt clean -fdq
cd $wt
PYTHONPATH=$wt/perception_eval TQDM_DISABLE=1 timeout 600 /venv/bin/python -W ignore $d/demo.py > $d/demo_clean.log 2>&1; rc_clean=$?
if ! git apply --check $d/patch.diff 2>/dev/null; then echo "{\"pid\":\"$pid\",\"k\":$k,\"applies\":false}" > $d/confirm.json; echo "$pid m$k: patch does not apply"; exit 3; fi
git apply $d/patch.diff
PYTHONPATH=$wt/perception_eval TQDM_DISABLE=1 timeout 600 /venv/bin/python -W ignore $d/demo.py > $d/demo_mut.log 2>&1; rc_mut=$?
PYTHONPATH=$wt/perception_eval timeout 1800 /venv/bin/python -m pytest -q -p no:cacheprovider --timeout=900 --continue-on-collection-errors > $d/suite_confirm.log 2>&1
summary=$(tail -1 $d/suite_confirm.log)
git -C $wt checkout -q -- . ; git -C $wt clean -fdq
passed=$(echo "$summary" | grep -o '[0-9]* passed' | grep -o '[0-9]*'); failed=$(echo "$summary" | grep -o '[0-9]* failed' | grep -o '[0-9]*')
echo "{\"pid\":\"$pid\",\"k\":$k,\"applies\":true,\"demo_clean_rc\":$rc_clean,\"demo_mut_rc\":$rc_mut,\"suite_passed\":${passed:-0},\"suite_failed\":${failed:-0}}" > $d/confirm.json
echo "$pid m$k: demo clean=$rc_clean mutated=$rc_mut suite: $summary"
