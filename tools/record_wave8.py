#!/usr/bin/env python3
"""tools/record_wave8.py <results log>... : record the confirmed wave-8 seeded changes from /tmp/mut into /verif/seeded/<pid>-w8m<k>/.
The result logs are the outputs of tools/try_patch.sh runs on /repo ("== Cxx mK" header lines followed by "Cxx rc=.. viol=.. signature=..");
later logs override earlier ones (a check that was strengthened is run again)."""
import json, os, re, shutil, sys

NEEDS = {
    ("C01", 1): "a per-label matchable radius of exactly 0 (e.g. [2.0, 0.0], or an IoU threshold 0): `not threshold` treats it as 'no radius', so that label's ground truths are paired at any distance / with IoU 0",
    ("C01", 2): "two distinct objects that compare equal under DynamicObject.__eq__ (same time, label, centre, yaw; other size or frame) with the later-listed one chosen first: list.remove() takes the twin out, one estimate is reported twice",
    ("C02", 1): "policy ALLOW_UNKNOWN, an FP-labelled ground truth, an estimate labelled neither unknown nor FP, and a competing same-label ground truth scoring worse than the FP one",
    ("C02", 2): "twin objects (equal under __eq__, different size) in a size-dependent mode with the later-listed one winning first and a further partner remaining for the other",
    ("C03", 1): "a pair of different labels (ALLOW_UNKNOWN / ALLOW_ANY) whose score lies between the two labels' pass/fail thresholds: the threshold is looked up by the estimate's label, the ground truth ends up in neither TP nor FN",
    ("C03", 2): "map-frame objects evaluated in at least two frames of one process with the ego pose changing in between: the on-demand inverse (map -> ego) is cached in a class-level dict",
    ("C04", 1): "nested per-frame input (scene level) and a second Ap built from the same container (APH, or the next threshold): flattening extends the caller's first frame list in place",
    ("C04", 2): "a label whose correct estimates outnumber the ground-truth count handed to Ap (recall above 1 is clamped to 1, AP no longer equals the PR area)",
    ("C05", 1): "a continuing target whose estimate keeps its id but changes label between consecutive TP frames (car, unknown, car under ALLOW_UNKNOWN / ALLOW_ANY): the label test of the same-ground-truth branch was dropped",
    ("C06", 1): "an object used once in an IoU / plane-distance matching, then moved (convert to map / base_link, interpolation: deepcopy + in-place state update), then matched again: the footprint is memoised on the instance",
    ("C06", 2): "two small boxes overlapping in BEV whose 3-D centre distance exceeds the sum of their footprint half-diagonals (pedestrian estimated 1.2 m too high): the quick reject uses the 3-D distance",
    ("C07", 1): "map-frame objects, a key frame evaluated first and then a frame derived from it whose ego pose was replaced through transforms[key] = ... (interpolated frames): the cached inverse is invalidated under the wrong key",
    ("C07", 2): "map-frame objects, a critical filter with a position / distance bound and a matched pair straddling it: the ground truth of a pair is tested without transforms and skips the range checks",
    ("C08", 1): "the same object-result instances evaluated under two matching modes sharing a numeric threshold (centre distance 0.5 first, then IoU 0.5): the verdict is memoised per threshold value, not per mode",
    ("C09", 1): "estimate and ground truth both stored as negative-scalar quaternions, yaws of opposite sign: the planar shortcut 2*atan2(z, w) leaves [-pi, pi]",
    ("C09", 2): "ego-frame pair in which a box has a small roll or pitch: the heading is taken from the rotated x-axis instead of pyquaternion's yaw (planar boxes identical)",
    ("C10", 1): "map-frame objects, an ego pose with pitch or roll, an object with a z offset and a distance bound between the map-plane and the ego-plane distance",
    ("C10", 2): "an UNKNOWN-labelled estimate while UNKNOWN is not a target label, x and y bound lists with different means and |y| between the two means",
    ("C11", 1): "traffic lights: estimate and ground truth of the same converted label written under different raw names (red / crosswalk_red), uuid matching off, different uuids: the label stage compares raw names",
    ("C12", 1): "two annotated boxes overlapping in 3-D with points in the intersection: points assigned to an earlier object are dropped from the cloud searched for later ones",
    ("C13", 1): "two different FrameGroundTruth objects sharing a frame_name on one manager (second scene, interpolated frame): the evaluator-level filtered ground truth is cached by frame name",
    ("C13", 2): "a TP and an FP of one label in different frames whose confidences are distinct doubles closer than float32 resolution, the FP's frame added first: ranking uses a float32 copy",
    ("C14", 1): "two autoware LabelConverters with different merge_similar_labels in one process: the common pair list is a module-level list extended in place",
    ("C15", 1): "set_thresholds(nest=True) with a first row that is a list and a later bare number ([[1.0, 2.0], 3.0]): rows are normalised by the flat helper, which broadcasts scalars",
    ("C16", 1): "tracking task, an instance annotated in a preceding sample between 3.0 s and 3.15 s old (key frames 1.02 s / 1.52 s apart): records older than exactly 3.0 s are dropped from tracked_path",
    ("C17", 1): "an object rotating by less than 3.6 degrees between the neighbouring frames while its stored quaternion changes sign (yaw crossing +-180 degrees slightly): the near-parallel shortcut is taken before the sign flip",
    ("C18", 1): "query Y->X through the inverse fallback, then assign or delete transforms[(X, Y)], then query Y->X again: the memoised inverse is never invalidated",
    ("C19", 1): "PerceptionAnalyzer3D with 9 area divisions and max_x_position != max_y_position: the y-band step is taken from max_x",
    ("C19", 2): "get_object_status over frame results of two scenes whose frame numbers restart, the same ground-truth uuid under the same frame number in both: the total frame list is de-duplicated",
    ("C20", 1): "a tuple / list transform key with an upper-case frame string (('BASE_LINK', 'MAP')) given to TransformDict.get / transform: the raw pair is looked up without parsing",
}
BASELINE_REPORTED = {("C18", 1), ("C14", 1), ("C15", 1), ("C11", 1), ("C17", 1), ("C08", 1), ("C10", 1), ("C10", 2), ("C01", 2), ("C02", 1), ("C02", 2),
                     ("C03", 1), ("C04", 1), ("C04", 2), ("C06", 1), ("C06", 2), ("C07", 1), ("C07", 2), ("C09", 1), ("C13", 1), ("C13", 2), ("C19", 1)}

res = {}
for path in sys.argv[1:]:
    cur = None
    for line in open(path):
        m = re.match(r"== (C\d\d)(?: m(\d))?", line)
        if m:
            cur = (m.group(1), int(m.group(2) or 1))
            continue
        m = re.match(r"(C\d\d) rc=(\d+) viol=(\d+) ?(.*)", line)
        if m and cur:
            res.setdefault(cur, {})[m.group(1)] = {"rc": int(m.group(2)), "violations_reported": int(m.group(3)), "first_signature": m.group(4).strip()}
head = os.popen("git -C /repo rev-parse --short HEAD").read().strip()
for (pid, k), needs in sorted(NEEDS.items()):
    src = "/tmp/mut/%s/m%d" % (pid, k)
    dst = "/verif/seeded/%s-w8m%d" % (pid, k)
    conf = json.load(open(os.path.join(src, "confirm.json")))
    assert conf["applies"] and conf["demo_clean_rc"] == 0 and conf["demo_mut_rc"] != 0 and conf["suite_failed"] == 0 and conf["suite_passed"] == 110, (pid, k, conf)
    os.makedirs(dst, exist_ok=True)
    for f in ("patch.diff", "demo.py", "notes.md"):
        shutil.copy(os.path.join(src, f), os.path.join(dst, f))
    meta = {
        "property": pid, "mutation": "w8m%d" % k, "wave": 8,
        "origin": "written by an independent sub-agent that saw only the property text and a scratch worktree",
        "needs_to_manifest": needs,
        "confirmed_in_scratch_worktree": {"demo_exit_clean": conf["demo_clean_rc"], "demo_exit_with_change": conf["demo_mut_rc"],
                                          "suite_passed_with_change": conf["suite_passed"], "suite_failed_with_change": conf["suite_failed"],
                                          "command": "tools/confirm_mut.sh %s %d" % (pid, k)},
        "baseline_before_strengthening": ("reported" if (pid, k) in BASELINE_REPORTED else "not reported") + " by the target check (measured baseline run of wave 8)",
        "checks_run": res.get((pid, k), {}),
        "command": "tools/try_patch.sh seeded/%s-w8m%d/patch.diff %s" % (pid, k, pid),
        "base_commit": head,
    }
    json.dump(meta, open(os.path.join(dst, "meta.json"), "w"), indent=1)
    print(pid, "m%d" % k, {c: (r["rc"], r["first_signature"][:50]) for c, r in meta["checks_run"].items()})
