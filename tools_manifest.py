#!/usr/bin/env python3
"""Regenerates MANIFEST.json from the table below (keeps it valid at all times)."""
import json, os, sys
HERE = os.path.dirname(os.path.abspath(__file__))
BASE_CMD = "cd /repo && /venv/bin/python -m pytest -ra -q -p no:cacheprovider --timeout=900 --continue-on-collection-errors"
# id -> (technique, level text, level note, design ref)
CHECKS = json.load(open(os.path.join(HERE, "manifest_checks.json")))
props = [json.loads(l)["id"] for l in open(os.path.join(HERE, "properties.jsonl"))]
checks, na = [], []
for pid in props:
    c = CHECKS.get(pid)
    if not c or not c.get("claimed", True):
        na.append({"property_id": pid, "reason": (c or {}).get("reason", "check not built yet (work in progress); see DESIGN.md")})
        continue
    checks.append({
        "property_id": pid,
        "quick_cmd": "./check %s --tier quick" % pid,
        "thorough_cmd": "./check %s --tier thorough" % pid,
        "evidence_file": "/verif/evidence/%s.json" % pid,
        "replay_cmd_template": "./check %s --replay {path}" % pid,
        "engine": "mc",
        "level_claimed": {"category": "model_checking", "text": c["text"], "design_ref": c["design_ref"]},
        "level_note": c["note"],
        "technique": c["technique"],
    })
m = {
    "version": 1,
    "setup_cmd": "./setup.sh",
    "hooks": {"guard": "PERCEPTION_EVAL_VERIF", "enable": "no source hooks are needed: every property is observed at public or module-level seams; ./check exports PERCEPTION_EVAL_VERIF=1 for uniformity",
              "baseline_off_cmd": BASE_CMD, "source_commits": [], "add_only": True},
    "engines": [{"name": "mc", "path": "/verif/mc", "serves_properties": [c["property_id"] for c in checks],
                 "kind_free_text": "hand-written bounded exhaustive explorer for Python: complete enumeration of finite input spaces and breadth-first explicit-state search over operation histories, executed on the real implementation and compared with reference models (mc/ref); 16-way sharded"}],
    "checks": checks,
    "not_applicable": na,
    "notes": "All checks run /venv/bin/python against /repo's working tree (PYTHONPATH=/repo/perception_eval). Known findings: /verif/known_findings.txt. Seeded mutations: /verif/seeded/.",
}
json.dump(m, open(os.path.join(HERE, "MANIFEST.json"), "w"), indent=1)
print("checks:", len(checks), "not_applicable:", len(na))
