#!/bin/bash
# Offline setup: nothing to build; byte-compile the framework and self-test the engine on a toy space.
set -e
cd "$(dirname "$0")"
chmod +x check
/venv/bin/python -m compileall -q mc >/dev/null
PYTHONHASHSEED=0 PYTHONPATH="/repo/perception_eval:$PWD" /venv/bin/python -W ignore -m mc.engine.selftest
