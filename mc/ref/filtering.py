"""Reference target predicate (documented behaviour of the object filter, C10).

An object is described by a plain dict with *ego-relative* x, y (None for 2D objects without position),
label (member name), name (original label string), attrs, score, pts, uuid.
cfg: target_labels (list of member names or None), ignore_attributes, max_x, max_y, max_d, min_d,
     conf, min_pts (per-label lists or None), uuids."""
import math

BOUNDARY = 1e-6


def _mean(v):
    return sum(v) / float(len(v))


def keep(o, is_gt, cfg):
    """-> (keep: bool, margin: float) ; margin = distance of the closest decisive comparison to its bound."""
    lab = o["label"]
    margin = float("inf")
    if lab == "FP":
        return True, margin
    tl = cfg.get("target_labels")
    relaxed = lab == "UNKNOWN" and not is_gt and not (tl is not None and "UNKNOWN" in tl)

    def thr(lst, relaxed_value):
        if relaxed:
            return relaxed_value(lst)
        if tl is None or lab not in tl:
            return None
        return lst[tl.index(lab)]

    if tl and not relaxed and lab not in tl:
        return False, margin
    ign = cfg.get("ignore_attributes")
    if ign is not None and not relaxed:
        name = o.get("name") or ""
        attrs = o.get("attrs") or []
        if any((k in name) or (k in attrs) for k in ign):
            return False, margin
    ok = True
    conf = cfg.get("conf")
    if conf is not None and not is_gt:
        t = thr(conf, lambda l: 0.0)
        if t is not None:
            margin = min(margin, abs(o["score"] - t))
            ok = ok and o["score"] > t
    x, y = o.get("x"), o.get("y")
    if x is not None:
        r = math.hypot(x, y)
        for key, val, cmp in (("max_x", abs(x), "lt"), ("max_y", abs(y), "lt"), ("max_d", r, "lt"), ("min_d", r, "gt")):
            lst = cfg.get(key)
            if lst is None:
                continue
            t = thr(lst, _mean)
            if t is None:
                continue
            margin = min(margin, abs(val - t))
            ok = ok and (val < t if cmp == "lt" else val > t)
        mp = cfg.get("min_pts")
        if is_gt and mp is not None:
            t = thr(mp, lambda l: 0)
            if t is not None:
                ok = ok and o["pts"] >= t
    if is_gt and cfg.get("uuids") is not None:
        ok = ok and o.get("uuid") in cfg["uuids"]
    return ok, margin


def to_lib_kwargs(cfg, label_enum):
    """cfg -> keyword arguments of filter_objects / filter_object_results."""
    tl = cfg.get("target_labels")
    return dict(
        target_labels=None if tl is None else [label_enum[n] for n in tl],
        ignore_attributes=cfg.get("ignore_attributes"),
        max_x_position_list=cfg.get("max_x"), max_y_position_list=cfg.get("max_y"),
        max_distance_list=cfg.get("max_d"), min_distance_list=cfg.get("min_d"),
        min_point_numbers=cfg.get("min_pts"), confidence_threshold_list=cfg.get("conf"),
        target_uuids=cfg.get("uuids"),
    )
