"""Plain-Python geometry reference (no shapely, no pyquaternion)."""
import math


def wrap(a):
    """wrap to (-pi, pi]."""
    a = (a + math.pi) % (2 * math.pi) - math.pi
    return a + 2 * math.pi if a <= -math.pi else a


def adiff(a, b):
    """absolute minimal difference of two yaw angles, in [0, pi]."""
    return abs(wrap(a - b))


def rot2(x, y, a):
    c, s = math.cos(a), math.sin(a)
    return c * x - s * y, s * x + c * y


def ego_to_map(x, y, yaw, ego):
    """ego = (ex, ey, eyaw): pose of the ego (base_link) in the map frame."""
    ex, ey, ea = ego
    rx, ry = rot2(x, y, ea)
    return ex + rx, ey + ry, yaw + ea


def map_to_ego(x, y, yaw, ego):
    ex, ey, ea = ego
    rx, ry = rot2(x - ex, y - ey, -ea)
    return rx, ry, yaw - ea


def box_corners(x, y, yaw, w, l, scale=1.0):
    """footprint corners in the library's order: (+l/2,+w/2), (-l/2,+w/2), (-l/2,-w/2), (+l/2,-w/2)."""
    out = []
    for a, b in ((l / 2, w / 2), (-l / 2, w / 2), (-l / 2, -w / 2), (l / 2, -w / 2)):
        rx, ry = rot2(a * scale, b * scale, yaw)
        out.append((x + rx, y + ry))
    return out


def poly_area(p):
    s = 0.0
    for i in range(len(p)):
        x1, y1 = p[i]
        x2, y2 = p[(i + 1) % len(p)]
        s += x1 * y2 - x2 * y1
    return abs(s) / 2.0


def _ccw(p):
    s = 0.0
    for i in range(len(p)):
        x1, y1 = p[i]
        x2, y2 = p[(i + 1) % len(p)]
        s += x1 * y2 - x2 * y1
    return p if s >= 0 else list(reversed(p))


def convex_clip(subject, clip):
    """Sutherland-Hodgman: intersection polygon of two convex polygons (signed-distance form, no division by zero)."""
    out = _ccw(list(subject))
    clip = _ccw(list(clip))
    for i in range(len(clip)):
        a, b = clip[i], clip[(i + 1) % len(clip)]
        inp, out = out, []
        if not inp:
            break

        def side(p):
            return (b[0] - a[0]) * (p[1] - a[1]) - (b[1] - a[1]) * (p[0] - a[0])

        s = inp[-1]
        ds = side(s)
        for e in inp:
            de = side(e)
            if de >= 0:
                if ds < 0:
                    t = ds / (ds - de)
                    out.append((s[0] + t * (e[0] - s[0]), s[1] + t * (e[1] - s[1])))
                out.append(e)
            elif ds >= 0:
                t = ds / (ds - de)
                out.append((s[0] + t * (e[0] - s[0]), s[1] + t * (e[1] - s[1])))
            s, ds = e, de
    return out


def inter_area(p, q):
    c = convex_clip(p, q)
    return poly_area(c) if len(c) >= 3 else 0.0


def iou_bev(b1, b2):
    """b = (x, y, yaw, w, l)."""
    p, q = box_corners(*b1), box_corners(*b2)
    i = inter_area(p, q)
    return i / (b1[3] * b1[4] + b2[3] * b2[4] - i), i


def iou_3d(b1, z1, h1, b2, z2, h2):
    _, i = iou_bev(b1, b2)
    hz = max(0.0, min(z1 + h1 / 2, z2 + h2 / 2) - max(z1 - h1 / 2, z2 - h2 / 2))
    v = i * hz
    return v / (b1[3] * b1[4] * h1 + b2[3] * b2[4] * h2 - v)


def point_in_box(px, py, x, y, yaw, w, l, scale=1.0):
    """strict interior test; returns (inside, margin) with margin = min relative distance to a face."""
    u, v = rot2(px - x, py - y, -yaw)
    mu, mv = scale * l / 2 - abs(u), scale * w / 2 - abs(v)
    return (mu > 0 and mv > 0), min(mu, mv)


def point_in_poly(px, py, poly):
    """even-odd rule."""
    c = False
    n = len(poly)
    for i in range(n):
        (x1, y1), (x2, y2) = poly[i], poly[(i + 1) % n]
        if (y1 > py) != (y2 > py) and px < (x2 - x1) * (py - y1) / (y2 - y1) + x1:
            c = not c
    return c


def quat_from_ypr(yaw, pitch=0.0, roll=0.0):
    """(w, x, y, z) of R = Rz(yaw) Ry(pitch) Rx(roll)."""
    cy, sy = math.cos(yaw / 2), math.sin(yaw / 2)
    cp, sp = math.cos(pitch / 2), math.sin(pitch / 2)
    cr, sr = math.cos(roll / 2), math.sin(roll / 2)
    return (cr * cp * cy + sr * sp * sy, sr * cp * cy - cr * sp * sy, cr * sp * cy + sr * cp * sy, cr * cp * sy - sr * sp * cy)


def yaw_of_quat(q):
    w, x, y, z = q
    return math.atan2(2 * (w * z + x * y), 1 - 2 * (y * y + z * z))


def pose_matrix(x, y, z, yaw, pitch=0.0, roll=0.0):
    """4x4 matrix of the pose R = Rz(yaw) Ry(pitch) Rx(roll), t = (x, y, z) as nested lists (numpy-free reference)."""
    cy, sy, cp, sp, cr, sr = math.cos(yaw), math.sin(yaw), math.cos(pitch), math.sin(pitch), math.cos(roll), math.sin(roll)
    R = [[cy * cp, cy * sp * sr - sy * cr, cy * sp * cr + sy * sr],
         [sy * cp, sy * sp * sr + cy * cr, sy * sp * cr - cy * sr],
         [-sp, cp * sr, cp * cr]]
    return [R[0] + [x], R[1] + [y], R[2] + [z], [0.0, 0.0, 0.0, 1.0]]


def plane_distance_ref(e, g):
    """documented plane distance of two boxes given in ego coordinates, e / g = (x, y, yaw, w, l): RMS distance between corresponding
    footprint corners over the ground truth's two corners nearest to the ego; None if the 2nd / 3rd nearest corners are within 1e-6."""
    ce, cg = box_corners(*e), box_corners(*g)
    order = sorted(range(4), key=lambda k: math.hypot(*cg[k]))
    d = [math.hypot(*cg[k]) for k in order]
    if d[2] - d[1] < 1e-6:
        return None
    a, b = order[0], order[1]
    return math.sqrt(0.5 * ((ce[a][0] - cg[a][0]) ** 2 + (ce[a][1] - cg[a][1]) ** 2 + (ce[b][0] - cg[b][0]) ** 2 + (ce[b][1] - cg[b][1]) ** 2))
