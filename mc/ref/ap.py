"""Exact-rational reference for interpolated AP / APH / mAP (documented definition, C04)."""
from fractions import Fraction as Fr


def ap_from_ranking(seq, num_gt):
    """seq: ranked (descending confidence) list of per-result TP weights: a Fraction in [0,1] for a correct
    result (1 for AP, heading weight for APH), 0 for a wrong one, None for an ignored one (counts as a rank
    position but is neither TP nor FP).  Returns Fraction, or None when there is no result (AP undefined)."""
    if not seq:
        return None
    cum = Fr(0)
    pts = []
    for k, w in enumerate(seq, 1):
        if w is not None:
            cum += Fr(w)
        pts.append((cum / k, (cum / num_gt) if num_gt > 0 else Fr(0)))
    levels = sorted({r for _, r in pts})
    ap, prev = Fr(0), Fr(0)
    for r in levels:
        if r == 0:
            continue
        ap += (r - prev) * max(p for p, rr in pts if rr >= r)
        prev = r
    return ap


def mean_defined(values):
    v = [x for x in values if x is not None]
    return sum(v, Fr(0)) / len(v) if v else None


def bucket_label(est_label, gt_label, targets):
    """label bucket of a result (names); None = dropped."""
    if est_label in targets:
        return est_label
    if gt_label is not None:
        return gt_label if gt_label in targets else gt_label  # a non-target GT label forms its own (unused) bucket
    return None
