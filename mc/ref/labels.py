"""Golden label tables and label-policy reference (independent of the code under test).

Sources: docs/en/perception/label.md (autoware family, both merge settings), the canonical
enum names, and the alias spellings the converter documents in its own table layout
(`red_rightdiagonal`, `crosswalk_*`).  Labels are given by *member name*."""

AUTOWARE = {  # merge_similar_labels = False
    "car": "CAR", "vehicle.car": "CAR", "vehicle.construction": "CAR",
    "vehicle.emergency (ambulance & police)": "CAR", "vehicle.police": "CAR", "vehicle.fire": "CAR",
    "vehicle.ambulance": "CAR",
    "truck": "TRUCK", "vehicle.truck": "TRUCK", "trailer": "TRUCK", "vehicle.trailer": "TRUCK",
    "bus": "BUS", "vehicle.bus": "BUS", "vehicle.bus (bendy & rigid)": "BUS",
    "bicycle": "BICYCLE", "vehicle.bicycle": "BICYCLE",
    "motorbike": "MOTORBIKE", "motorcycle": "MOTORBIKE", "vehicle.motorcycle": "MOTORBIKE",
    "pedestrian": "PEDESTRIAN", "stroller": "PEDESTRIAN", "pedestrian.adult": "PEDESTRIAN",
    "pedestrian.child": "PEDESTRIAN", "pedestrian.construction_worker": "PEDESTRIAN",
    "pedestrian.personal_mobility": "PEDESTRIAN", "pedestrian.police_officer": "PEDESTRIAN",
    "pedestrian.stroller": "PEDESTRIAN", "pedestrian.wheelchair": "PEDESTRIAN",
    "construction_worker": "PEDESTRIAN",
    "unknown": "UNKNOWN", "animal": "UNKNOWN", "movable_object.barrier": "UNKNOWN",
    "movable_object.debris": "UNKNOWN", "movable_object.pushable_pullable": "UNKNOWN",
    "movable_object.trafficcone": "UNKNOWN", "movable_object.traffic_cone": "UNKNOWN",
    "static_object.bicycle rack": "UNKNOWN", "static_object.bollard": "UNKNOWN",
    "static_object.forklift": "UNKNOWN", "forklift": "UNKNOWN",
    "false_positive": "FP",
}
MERGE = {"TRUCK": "CAR", "BUS": "CAR", "MOTORBIKE": "BICYCLE"}

_TLR_MEMBERS = [
    "green", "green_straight", "green_left", "green_right", "yellow", "yellow_straight", "yellow_left",
    "yellow_right", "yellow_straight_left", "yellow_straight_right", "yellow_straight_left_right", "red",
    "red_straight", "red_left", "red_right", "red_straight_left", "red_straight_right",
    "red_straight_left_right", "red_left_diagonal", "red_right_diagonal",
]
TLR_CLASSIFICATION = {n: n.upper() for n in _TLR_MEMBERS}
TLR_CLASSIFICATION.update({
    "red_rightdiagonal": "RED_RIGHT_DIAGONAL", "red_leftdiagonal": "RED_LEFT_DIAGONAL",
    "crosswalk_red": "RED", "crosswalk_green": "GREEN", "crosswalk_unknown": "UNKNOWN",
    "unknown": "UNKNOWN", "false_positive": "FP",
})
# detection2d / tracking2d / ...: every light state is just a traffic light
TLR_OTHER = {n: "TRAFFIC_LIGHT" for n in _TLR_MEMBERS if n != "yellow_straight_left_right"}
TLR_OTHER.update({
    "traffic_light": "TRAFFIC_LIGHT", "red_rightdiagonal": "TRAFFIC_LIGHT", "red_leftdiagonal": "TRAFFIC_LIGHT",
    "crosswalk_red": "TRAFFIC_LIGHT", "crosswalk_green": "TRAFFIC_LIGHT", "crosswalk_unknown": "UNKNOWN",
    "unknown": "UNKNOWN", "false_positive": "FP",
})

UNREGISTERED = ["", " ", "foo", "car ", " car", "cars", "vehicle", "vehicle.", "traffic-light", "greenish",
                "unknown_", "None", "red light", "pedestrian.", "false positive", "123"]


def golden(family, task_value, merge):
    """name -> member name for (family, task, merge)."""
    if family == "autoware":
        t = dict(AUTOWARE)
        if merge:
            t = {k: MERGE.get(v, v) for k, v in t.items()}
        return t
    return dict(TLR_CLASSIFICATION if task_value == "classification2d" else TLR_OTHER)


def compatible(policy, est_label, gt_label):
    """policy in {"DEFAULT","ALLOW_UNKNOWN","ALLOW_ANY"}; labels are member names ("FP", "UNKNOWN", ...)."""
    if gt_label == "FP" or policy == "ALLOW_ANY":
        return True
    if policy == "ALLOW_UNKNOWN":
        return est_label == gt_label or est_label == "UNKNOWN"
    return est_label == gt_label
