"""C15 - configurations are validated; thresholds normalised to one value per label."""
import copy
import itertools
import os
from numbers import Real

from perception_eval.common.threshold import check_nested_thresholds, check_thresholds, set_thresholds
from perception_eval.config import PerceptionEvaluationConfig, SensingEvaluationConfig
from perception_eval.evaluation.result.perception_frame_config import CriticalObjectFilterConfig, PerceptionPassFailConfig

from mc.engine import scratch

ID = "C15"
RULE = ("(a) every threshold specification from the grammar {leaf | flat list (len 0..3/4) | nested list whose elements are "
        "leaves or flat lists (len 0..3)} over leaves {1.0, 2, 'x', None}, for 1..3 target labels (thorough: 1..4), nest on/off, "
        "through set_thresholds / check_thresholds / check_nested_thresholds; (b) every single and double edit from a table of "
        "26 edits applied to a valid configuration of each of the 8 perception tasks (+ sensing), through "
        "PerceptionEvaluationConfig / SensingEvaluationConfig; (c) CriticalObjectFilterConfig / PerceptionPassFailConfig with "
        "every list length 0..3 and non-numeric entries. state = (kind, n, nest, shape class of the spec or edit pair, "
        "accepted/rejected, reference verdict); non-trivial = a malformed spec/config or a broadcast")
ASSUMPTIONS = [
    "bool, NaN, tuples and dicts are outside the documented threshold types and are not enumerated",
    "acceptance oracle is one-directional: over-rejection is never flagged; demanded rejections are exactly those the property "
    "names (unsupported task; both/neither complete range pair for 3D; missing evaluation_task/label_prefix/(detection) "
    "min_point_numbers; unknown *_thresholds key; wrong-length or non-numeric per-label filter list; malformed metric "
    "thresholds for tasks that build a metrics config)",
]
LEAF = [1.0, 2, "x", None]
_DIR = [None]


def isnum(x):
    return isinstance(x, Real) and not isinstance(x, bool)


def ref_norm(spec, n, nest):
    """reference normaliser: returns the normalised value or raises ValueError."""
    if not nest:
        if isnum(spec):
            return [spec] * n
        if not isinstance(spec, list) or not spec or not all(isnum(t) for t in spec):
            raise ValueError
        if len(spec) == 1:
            return spec * n
        if len(spec) == n:
            return list(spec)
        raise ValueError
    if isnum(spec):
        return [[spec] * n]
    if not isinstance(spec, list) or not spec:
        raise ValueError
    if all(isnum(t) for t in spec):
        return [list(spec)] if len(spec) == n else [[t] * n for t in spec]
    if all(isinstance(t, list) for t in spec):
        out = []
        for t in spec:
            if not t or not all(isnum(e) for e in t):
                raise ValueError
            if len(t) == 1:
                out.append(t * n)
            elif len(t) == n:
                out.append(list(t))
            else:
                raise ValueError
        return out
    raise ValueError


def flat_lists(maxlen, leaves):
    for k in range(maxlen + 1):
        for t in itertools.product(leaves, repeat=k):
            yield list(t)


def spec_space(tier):
    """(unit index -> list of specs); the space is the union."""
    fl_leaf = [1.0, 2, "x"]
    maxflat = 3 if tier == "quick" else 4
    FL = list(flat_lists(3, fl_leaf))
    ELEMS = [1.0, "x"] + FL
    groups = [[l for l in LEAF] + list(flat_lists(maxflat, LEAF))]
    for k in range(0, 4):
        g = [[copy.copy(ELEMS[i]) for i in t] for t in itertools.product(range(len(ELEMS)), repeat=k)]
        if k == 3:
            nch = 24
            groups += [g[c::nch] for c in range(nch)]
        else:
            groups.append(g)
    return groups


# ---------------------------------------------------------------------------------------------------
BASE3D = {"target_labels": ["car", "pedestrian", "bicycle"], "max_x_position": 100.0, "max_y_position": 100.0,
          "min_point_numbers": [0, 0, 0], "label_prefix": "autoware", "merge_similar_labels": False,
          "center_distance_thresholds": [1.0, 2.0], "plane_distance_thresholds": [[1.0, 1.0, 1.0]], "iou_2d_thresholds": [0.5],
          "iou_3d_thresholds": [0.5], "max_matchable_radii": [5.0, 3.0, 3.0], "confidence_threshold": 0.1}
BASE2D = {"target_labels": ["car", "pedestrian", "bicycle"], "label_prefix": "autoware", "center_distance_thresholds": [100.0],
          "iou_2d_thresholds": [0.5]}
TASKS = {"detection": ("base_link", BASE3D), "tracking": ("map", BASE3D), "fp_validation": ("base_link", BASE3D),
         "prediction": ("map", BASE3D), "detection2d": ("cam_front", BASE2D), "tracking2d": ("cam_front", BASE2D),
         "classification2d": ("cam_front", {"target_labels": ["car", "pedestrian", "bicycle"], "label_prefix": "autoware"}),
         "fp_validation2d": ("cam_front", BASE2D)}
IS3D = {"detection", "tracking", "fp_validation", "prediction"}
BUILDS_METRICS = {"detection", "tracking", "detection2d", "tracking2d", "classification2d"}
METRIC_KEYS = ["center_distance_thresholds", "plane_distance_thresholds", "iou_2d_thresholds", "iou_3d_thresholds"]
FILTER_LIST_KEYS = ["max_x_position", "max_y_position", "max_distance", "max_matchable_radii", "min_point_numbers", "confidence_threshold"]

EDITS = {
    "none": [],
    "del:evaluation_task": [("del", "evaluation_task")], "del:label_prefix": [("del", "label_prefix")],
    "del:min_point_numbers": [("del", "min_point_numbers")], "del:max_x_position": [("del", "max_x_position")],
    "del:max_y_position": [("del", "max_y_position")], "del:center_distance_thresholds": [("del", "center_distance_thresholds")],
    "del:max_matchable_radii": [("del", "max_matchable_radii")], "del:confidence_threshold": [("del", "confidence_threshold")],
    "add:foo_thresholds": [("set", "foo_thresholds", [0.8])],
    "add:distance_range": [("set", "max_distance", 80.0), ("set", "min_distance", 1.0)],
    "add:max_distance_only": [("set", "max_distance", 80.0)],
    "add:distance_range_zero_min": [("set", "max_distance", 80.0), ("set", "min_distance", 0.0)],
    "zero:max_y_position": [("set", "max_y_position", 0.0)],
    "bad_len:min_point_numbers": [("set", "min_point_numbers", [0, 0])],
    "bad_len:max_matchable_radii": [("set", "max_matchable_radii", [1.0, 2.0])],
    "bad_len:max_x_position": [("set", "max_x_position", [10.0, 20.0])],
    "nonnum:confidence_threshold": [("set", "confidence_threshold", ["x"])],
    "nonnum:min_point_numbers": [("set", "min_point_numbers", [0, "x", 0])],
    "bad_len:center": [("set", "center_distance_thresholds", [[1.0, 2.0]])],
    "nonnum:center": [("set", "center_distance_thresholds", ["x"])],
    "nonnum:nested_iou2d": [("set", "iou_2d_thresholds", [["x", "y", "z"]])],
    "empty:plane": [("set", "plane_distance_thresholds", [[]])],
    "task:foo": [("set", "evaluation_task", "foo")], "task:sensing": [("set", "evaluation_task", "sensing")],
    "task:enum-sensing": [("set", "evaluation_task", "ENUM:sensing")], "task:enum-same": [("set", "evaluation_task", "ENUM:same")],
    "per_label:max_x_position": [("set", "max_x_position", [10.0, 20.0, 30.0])],
    # three target names, two of which resolve to the same label: still three target labels
    "labels:alias": [("set", "target_labels", ["car", "vehicle.car", "pedestrian"])],
    "labels:repeated": [("set", "target_labels", ["bicycle", "car", "car"])],
    "per_label:center": [("set", "center_distance_thresholds", [[1.0, 2.0, 3.0]])],
    # another label family: the same rules hold
    "prefix:traffic_light": [("set", "label_prefix", "traffic_light"), ("set", "target_labels", ["green", "red", "yellow"])],
    "del:max_distance_pair": [("del", "max_x_position"), ("del", "max_y_position")],
}


def apply_edits(task, names):
    fid, base = TASKS[task]
    c = copy.deepcopy(base)
    c["evaluation_task"] = task
    names = list(names)
    for nm in names:
        for e in EDITS[nm]:
            if e[0] == "del":
                c.pop(e[1], None)
            else:
                c[e[1]] = copy.deepcopy(e[2])
                if e[2] == "ENUM:same":
                    c[e[1]] = "ENUM:" + task
    return fid, c


def _materialise(c):
    """the configuration dict handed to the library: 'ENUM:<task>' stands for the EvaluationTask member (cases stay JSON-able)."""
    from perception_eval.common.evaluation_task import EvaluationTask
    c = copy.deepcopy(c)
    t = c.get("evaluation_task")
    if isinstance(t, str) and t.startswith("ENUM:"):
        c["evaluation_task"] = EvaluationTask(t[5:])
    return c


def _valid_flat(v, n):
    try:
        ref_norm(copy.deepcopy(v), n, False)
        return True
    except ValueError:
        return False


def _valid_nested(v, n):
    try:
        ref_norm(copy.deepcopy(v), n, True)
        return True
    except ValueError:
        return False


def must_reject(task_cfg_task, c):
    """reasons (list) why the property demands rejection of config dict c built for PerceptionEvaluationConfig."""
    why = []
    task = c.get("evaluation_task")
    if task is None:
        return ["missing-evaluation_task"]
    if isinstance(task, str) and task.startswith("ENUM:"):
        task = task[5:]
    if task not in TASKS:
        return ["unsupported-task"]
    if "label_prefix" not in c:
        why.append("missing-label_prefix")
    n = len(c.get("target_labels") or [])
    if task in IS3D:
        xy = c.get("max_x_position") is not None and c.get("max_y_position") is not None
        dd = c.get("max_distance") is not None and c.get("min_distance") is not None
        if xy and dd:
            why.append("both-range-kinds")
        if not xy and not dd:
            why.append("no-range-kind")
    if task == "detection" and c.get("min_point_numbers") is None:
        why.append("missing-min_point_numbers")
    if any(k.endswith("_thresholds") and k not in METRIC_KEYS for k in c):
        why.append("unknown-metric-parameter")
    if n:
        for k in FILTER_LIST_KEYS:
            v = c.get(k)
            if v is None:
                continue
            # a range list is only consulted when its pair is complete
            if k in ("max_x_position", "max_y_position") and not (c.get("max_x_position") is not None and c.get("max_y_position") is not None):
                continue
            if k == "max_distance" and not (c.get("min_distance") is not None) :
                continue
            if k == "max_distance" and c.get("max_x_position") is not None and c.get("max_y_position") is not None:
                continue  # with both kinds the config is rejected anyway; which lists are read is not specified
            if not _valid_flat(v, n):
                why.append("malformed-filter-list:" + k)
        if task in BUILDS_METRICS:
            for k in METRIC_KEYS:
                v = c.get(k)
                if v is None or v == [] or v == 0:
                    continue
                if task == "classification2d":
                    continue
                if not _valid_nested(v, n):
                    why.append("malformed-metric-thresholds:" + k)
    return why


def units(tier, seed):
    u = []
    ns = (1, 2, 3) if tier == "quick" else (1, 2, 3, 4)
    for gi in range(len(spec_space(tier))):
        u.append(dict(kind="spec", group=gi, ns=list(ns), tier=tier))
    names = list(EDITS)
    for task in TASKS:
        u.append(dict(kind="config", task=task, pairs="single"))
        for k in range(4):
            u.append(dict(kind="config", task=task, pairs="double", chunk=[k, 4]))
    u.append(dict(kind="sensing"))
    u.append(dict(kind="np_scalars"))
    u.append(dict(kind="divisors"))
    u.append(dict(kind="frame_config"))
    u.append(dict(kind="all_labels"))
    return u


def bounds(tier, seed):
    return {"leaves": [repr(l) for l in LEAF], "flat_len": "0..%d" % (3 if tier == "quick" else 4), "nested_len": "0..3 of {leaf, flat list len 0..3}",
            "target_labels": "1..%d" % (3 if tier == "quick" else 4), "edits": len(EDITS), "edit_depth": 2, "tasks": list(TASKS) + ["sensing"]}


NP_TOKENS = ["NP:float32", "NP:int64", "NP:float64", "NP:datetime64", "NP:bytes", "NP:complex64", "NP:str", "NP:void"]
NP_SHAPES = ["v", "[v]", "[v,1.0,2.0]", "[1.0,v,2.0]", "[[v]]", "[[v,1.0,2.0]]", "[[1.0],[v]]", "[[1.0,2.0,3.0],[2.0,v,1.0]]"]


def _np_value(tok):
    import numpy as np
    return {"NP:float32": np.float32(1.5), "NP:int64": np.int64(2), "NP:float64": np.float64(0.25), "NP:datetime64": np.datetime64("2020-01-01"),
            "NP:bytes": np.bytes_(b"1"), "NP:complex64": np.complex64(1 + 0j), "NP:str": np.str_("1.0"), "NP:void": np.void(b"\x01\x02")}[tok]


def _np_spec(shape, v):
    return {"v": v, "[v]": [v], "[v,1.0,2.0]": [v, 1.0, 2.0], "[1.0,v,2.0]": [1.0, v, 2.0], "[[v]]": [[v]], "[[v,1.0,2.0]]": [[v, 1.0, 2.0]],
            "[[1.0],[v]]": [[1.0], [v]], "[[1.0,2.0,3.0],[2.0,v,1.0]]": [[1.0, 2.0, 3.0], [2.0, v, 1.0]]}[shape]


def run_unit(unit, acc):
    if unit["kind"] == "divisors":
        # label counts with proper divisors (4, 6, 8, 9) and rows / flat lists whose length is such a divisor: neither 1 nor n
        for n in (4, 6, 8, 9):
            for ln in range(1, n + 1):
                row = [float(i + 1) for i in range(ln)]
                for spec in ([row], [row, [9.0]], [[9.0] * n, row], row):
                    for nest in (False, True):
                        check_case(dict(kind="spec", spec=spec, n=n, nest=nest), acc)
        return
    if unit["kind"] == "np_scalars":
        for tok in NP_TOKENS:
            for shape in NP_SHAPES:
                if shape == "v" and tok in ("NP:bytes", "NP:void", "NP:str"):
                    continue   # a bare bytes-like / string object as the whole specification is a Python sequence, not an entry: not enumerated
                for nest in (False, True):
                    check_case(dict(kind="np_scalars", token=tok, shape=shape, nest=nest, n=3), acc)
        return
    if unit["kind"] == "spec":
        for spec in spec_space(unit["tier"])[unit["group"]]:
            for n in unit["ns"]:
                for nest in (False, True):
                    check_case(dict(kind="spec", spec=spec, n=n, nest=nest), acc)
    elif unit["kind"] == "config":
        names = list(EDITS)
        if unit["pairs"] == "single":
            combos = [[a] for a in names]
        else:
            combos = [[a, b] for a, b in itertools.combinations(names[1:], 2)]
            combos = combos[unit["chunk"][0]::unit["chunk"][1]]
        for combo in combos:
            check_case(dict(kind="config", task=unit["task"], edits=combo), acc)
    elif unit["kind"] == "all_labels":
        for order in (["autoware", "traffic_light"], ["traffic_light", "autoware"], ["autoware", "autoware", "traffic_light"]):
            for tl in (None, []):
                for task in ("detection2d", "tracking2d", "classification2d"):
                    check_case(dict(kind="all_labels", order=order, target_labels=tl, task=task), acc)
    elif unit["kind"] == "sensing":
        for edits in ([], ["task:foo"], ["task:detection"], ["del:evaluation_task"], ["add:target_uuids"], ["task:enum-sensing"], ["task:enum-detection"],
                      ["task:enum-tracking2d"], ["task:enum-classification2d"]):
            check_case(dict(kind="sensing", edits=edits), acc)
    else:
        for n in (1, 2, 3):
            for which in ("max_x", "max_d", "min_pts", "conf", "thr"):
                for ln in (0, 1, 2, 3, 4):
                    for nonnum in (False, True):
                        check_case(dict(kind="frame_config", n=n, which=which, length=ln, nonnum=nonnum), acc)
                        for eval_n in (1, 2, 3, 4):
                            if eval_n != n and not nonnum:
                                check_case(dict(kind="frame_config", n=n, which=which, length=ln, nonnum=nonnum, eval_n=eval_n), acc)


def _res_dir():
    if _DIR[0] is None or not os.path.isdir(_DIR[0]):
        _DIR[0] = scratch.new_dir("c15")
    return os.path.join(_DIR[0], "r")


def _shape(spec):
    if isinstance(spec, list):
        return "[" + ",".join(_shape(s) for s in spec) + "]"
    return "n" if isnum(spec) else ("s" if isinstance(spec, str) else "0")


def check_case(case, acc):
    acc.case()
    if acc.cases % 4001 == 1:
        acc.sample(case)
    k = case["kind"]
    if k == "np_scalars":
        # numpy scalars as threshold entries: the real ones (float32, int64, float64) are numbers, the others (dates, bytes, complex,
        # strings, raw bytes) are not
        v = _np_value(case["token"])
        spec, n, nest = _np_spec(case["shape"], v), case["n"], case["nest"]
        numeric = case["token"] in ("NP:float32", "NP:int64", "NP:float64")
        try:
            ref_norm(_np_spec(case["shape"], 1.0), n, nest)
            shape_ok = True
        except ValueError:
            shape_ok = False
        want_ok = numeric and shape_ok
        outcomes = {}
        fns = [("set_thresholds", lambda: set_thresholds(copy.deepcopy(spec), n, nest))]
        if isinstance(spec, list) and nest and all(isinstance(t, list) and len(t) == n for t in spec):
            fns.append(("check_nested_thresholds", lambda: check_nested_thresholds(copy.deepcopy(spec), n)))
        if isinstance(spec, list) and not nest and len(spec) == n and not any(isinstance(t, list) for t in spec):
            fns.append(("check_thresholds", lambda: check_thresholds(copy.deepcopy(spec), n)))
        for nm, fn in fns:
            acc.exec()
            try:
                fn()
                outcomes[nm] = "ok"
            except Exception as ex:  # noqa
                outcomes[nm] = "err"
        acc.compared()
        for nm, oc in outcomes.items():
            if oc == "ok" and not want_ok:
                acc.violation("threshold:accepted-malformed:numpy-scalar", "%s accepts %s with v = %r (%s) for %d labels, nest=%s; %s" % (
                    nm, case["shape"], v, type(v).__name__, n, nest, "the entry is not a number" if not numeric else "the shape is malformed"), case)
            if oc == "err" and want_ok:
                acc.violation("threshold:rejected-valid:numpy-scalar", "%s rejects %s with the real numpy scalar v = %r for %d labels, nest=%s" % (nm, case["shape"], v, n, nest), case)
        acc.state(("np", case["token"], case["shape"], nest, tuple(sorted(outcomes.items()))), nontrivial=not numeric)
        acc.outcome(("np", want_ok))
    elif k == "spec":
        spec, n, nest = case["spec"], case["n"], case["nest"]
        arg = copy.deepcopy(spec)
        try:
            exp = ("ok", ref_norm(copy.deepcopy(spec), n, nest))
        except ValueError:
            exp = ("err", None)
        acc.exec()
        try:
            got = ("ok", set_thresholds(arg, n, nest))
        except Exception as ex:  # noqa
            got = ("err", type(ex).__name__)
        acc.compared()
        shape = _shape(spec)
        bcast = exp[0] == "ok" and exp[1] != spec
        acc.state(("spec", n, nest, shape if len(shape) < 14 else shape[:14], got[0], exp[0]), nontrivial=exp[0] == "err" or bcast)
        acc.outcome((got[0], exp[0]))
        if exp[0] == "err" and got[0] == "ok":
            sig = "threshold:accepted-malformed:" + ("nested-non-numeric" if (nest and isinstance(spec, list) and all(isinstance(t, list) for t in spec) and spec) else "other")
            acc.violation(sig, "set_thresholds(%r, %d, nest=%s) returned %r; the specification is malformed and must be rejected" % (spec, n, nest, got[1]), case)
        elif exp[0] == "ok" and got[0] == "err":
            acc.violation("threshold:rejected-valid", "set_thresholds(%r, %d, nest=%s) raised %s, expected %r" % (spec, n, nest, got[1], exp[1]), case)
        elif exp[0] == "ok":
            if got[1] != exp[1]:
                acc.violation("threshold:wrong-value", "set_thresholds(%r, %d, nest=%s) = %r, expected %r" % (spec, n, nest, got[1], exp[1]), case)
            else:
                rows = got[1] if nest else [got[1]]
                if any(len(r) != n or not all(isnum(e) for e in r) for r in rows):
                    acc.violation("threshold:shape", "normalised value %r does not hold exactly %d numbers per row" % (got[1], n), case)
                acc.exec(2)
                try:
                    again = set_thresholds(copy.deepcopy(got[1]), n, nest)
                    chk = (check_nested_thresholds if nest else check_thresholds)(copy.deepcopy(got[1]), n)
                except Exception as ex:  # noqa
                    again = chk = repr(ex)
                if again != got[1] or chk != got[1]:
                    acc.violation("threshold:not-idempotent", "normalising %r again gives %r / check gives %r" % (got[1], again, chk), case)
        else:
            # both reject: the check_* helpers must reject the raw malformed value too when it has the target nesting
            pass
    elif k == "config":
        fid, c = apply_edits(case["task"], case["edits"])
        why = must_reject(case["task"], c)
        acc.exec()
        try:
            ec = PerceptionEvaluationConfig(["/nonexistent"], fid, _res_dir(), _materialise(c))
            got = "ok"
        except Exception as ex:  # noqa
            ec, got = None, "err:" + type(ex).__name__
        acc.compared()
        acc.state(("config", case["task"], tuple(case["edits"]), got[:3], tuple(sorted(w.split(":")[0] for w in why))), nontrivial=bool(why))
        acc.outcome((got[:3], bool(why)))
        if got == "ok" and why:
            only_unknown = all(w == "unknown-metric-parameter" for w in why)
            sig = "config:unknown-metric-parameter-accepted" if only_unknown else "config:accepted:" + "+".join(sorted(set(w.split(":")[0] for w in why if w != "unknown-metric-parameter")))
            acc.violation(sig, "PerceptionEvaluationConfig accepted task=%s edits=%s although: %s" % (case["task"], case["edits"], why), case)
        if got == "ok":
            n = len(ec.target_labels)
            for key, v in ec.filtering_params.items():
                if isinstance(v, list) and key not in ("target_uuids", "ignore_attributes", "target_labels"):
                    if len(v) != n or not all(isnum(e) for e in v):
                        acc.violation("config:filter-list-length:" + key, "accepted config exposes %s=%r for %d target labels (task=%s edits=%s)" % (
                            key, v, n, case["task"], case["edits"]), case)
            mc = ec.metrics_config
            for cc in (mc.detection_config, mc.tracking_config):
                if cc is None:
                    continue
                for a in METRIC_KEYS:
                    for row in getattr(cc, a):
                        if not isinstance(row, list) or len(row) != n or not all(isnum(e) for e in row):
                            acc.violation("config:metric-row-length:" + a, "accepted config exposes %s row %r for %d target labels (task=%s edits=%s)" % (
                                a, row, n, case["task"], case["edits"]), case)
        if got != "ok" and not why and case["edits"] == ["none"] and case["task"] != "prediction":
            acc.violation("config:valid-rejected", "the valid base configuration of task %s is rejected (%s)" % (case["task"], got), case)
    elif k == "all_labels":
        # no target labels given = every label of the family; several configurations of different families live in one process
        from perception_eval.common.label import AutowareLabel, TrafficLightLabel
        fam = {"autoware": AutowareLabel, "traffic_light": TrafficLightLabel}
        made = []
        for prefix in case["order"]:
            c = {"evaluation_task": case["task"], "label_prefix": prefix, "center_distance_thresholds": [100.0], "iou_2d_thresholds": [0.5]}
            if case["target_labels"] is not None:
                c["target_labels"] = list(case["target_labels"])
            acc.exec()
            try:
                ec = PerceptionEvaluationConfig(["/nonexistent"], "cam_front", _res_dir(), c)
            except Exception as ex:  # noqa
                acc.violation("all-labels:rejected", "a configuration without target labels (family %s) was rejected: %r" % (prefix, ex), case)
                continue
            made.append((prefix, ec))
        acc.compared()
        for prefix, ec in made:
            want = len(list(fam[prefix]))
            n = len(ec.target_labels)
            bad_len = [(key, len(v)) for key, v in ec.filtering_params.items() if isinstance(v, list) and key not in ("target_uuids", "ignore_attributes") and len(v) != n]
            rows = []
            mc = ec.metrics_config
            for cc in (mc.detection_config, mc.tracking_config):
                if cc is not None:
                    for a in METRIC_KEYS:
                        rows += [len(r) for r in getattr(cc, a)]
            if n != want or any(type(l) is not fam[prefix] for l in ec.target_labels) or len(set(l.name for l in ec.target_labels)) != n:
                acc.violation("all-labels:target-list", "configuration of family %s without target labels exposes %d target labels, the family has %d (order %s)" % (prefix, n, want, case["order"]), case)
            elif bad_len or any(r != n for r in rows):
                acc.violation("all-labels:list-length", "configuration of family %s: per-label lists %s / metric rows %s do not hold one value per target label (%d)" % (prefix, bad_len, rows, n), case)
        acc.state(("all_labels", tuple(case["order"]), case["target_labels"] is None, case["task"], len(made)), nontrivial=len(case["order"]) > 1)
    elif k == "sensing":
        c = {"evaluation_task": "sensing", "target_uuids": None, "box_scale_0m": 1.0, "box_scale_100m": 1.0, "min_points_threshold": 1}
        for e in case["edits"]:
            if e == "task:foo":
                c["evaluation_task"] = "foo"
            elif e == "task:detection":
                c["evaluation_task"] = "detection"
            elif e == "del:evaluation_task":
                c.pop("evaluation_task")
            elif e == "add:target_uuids":
                c["target_uuids"] = ["a"]
            elif e.startswith("task:enum-"):
                c["evaluation_task"] = "ENUM:" + e[len("task:enum-"):]
        acc.exec()
        try:
            SensingEvaluationConfig(["/nonexistent"], "base_link", _res_dir(), _materialise(c))
            got = "ok"
        except Exception as ex:  # noqa
            got = "err:" + type(ex).__name__
        acc.compared()
        want_reject = c.get("evaluation_task") not in ("sensing", "ENUM:sensing")
        acc.state(("sensing", tuple(case["edits"]), got[:3]), nontrivial=want_reject)
        if want_reject and got == "ok":
            acc.violation("sensing:accepted-unsupported-task", "SensingEvaluationConfig accepted %r" % (c.get("evaluation_task"),), case)
        if not want_reject and got != "ok":
            acc.violation("sensing:valid-rejected", "valid sensing configuration rejected: %s" % got, case)
    else:
        n, which, ln, nonnum = case["n"], case["which"], case["length"], case["nonnum"]
        labels = ["car", "pedestrian", "bicycle"][:n]
        ne = case.get("eval_n", n)     # the evaluator's own number of target labels (the frame configuration may name fewer / other labels)
        elabels = ["car", "pedestrian", "bicycle", "truck"][:ne]
        cfg = copy.deepcopy(BASE3D)
        cfg.update(evaluation_task="detection", target_labels=elabels, min_point_numbers=[0] * ne, max_matchable_radii=None,
                   plane_distance_thresholds=[1.0])
        cfg = {a: b for a, b in cfg.items() if b is not None}
        ec = PerceptionEvaluationConfig(["/nonexistent"], "base_link", _res_dir(), cfg)
        lst = [1.5 + i for i in range(ln)]
        if nonnum and ln:
            lst[-1] = "x"
        good = [50.0] * n
        acc.exec()
        try:
            if which == "thr":
                o = PerceptionPassFailConfig(ec, labels, matching_threshold_list=lst)
                exposed = o.matching_threshold_list
            else:
                kw = dict(max_x_position_list=good, max_y_position_list=good)
                if which == "max_x":
                    kw["max_x_position_list"] = lst
                elif which == "max_d":
                    kw = dict(max_distance_list=lst, min_distance_list=[1.0] * n)
                elif which == "min_pts":
                    kw["min_point_numbers"] = lst
                else:
                    kw["confidence_threshold_list"] = lst
                o = CriticalObjectFilterConfig(ec, labels, **kw)
                exposed = {"max_x": o.max_x_position_list, "max_d": o.max_distance_list, "min_pts": o.min_point_numbers,
                           "conf": o.confidence_threshold_list}[which]
            got = "ok"
        except Exception as ex:  # noqa
            got, exposed = "err:" + type(ex).__name__, None
        acc.compared()
        valid = ln == n and not nonnum
        acc.state(("frame_config", n, ne, which, ln, nonnum, got[:3]), nontrivial=not valid)
        if got == "ok" and exposed is not None and (len(exposed) != n or not all(isnum(e) for e in exposed)):
            acc.violation("frame-config:length:" + which, "%s accepted a per-label list %r for %d target labels" % (
                "PerceptionPassFailConfig" if which == "thr" else "CriticalObjectFilterConfig", exposed, n), case)
        if valid and got != "ok":
            acc.violation("frame-config:valid-rejected", "a well-formed per-label list %r for %d labels was rejected (%s)" % (lst, n, got), case)
