"""C01 - matching is one-to-one and accounts for every estimate."""
from mc.props import _matcher as M
from mc.ref import geom

ID = "C01"
RULE = ("every case of three finite families is executed on get_object_results: (A) centre-distance score tables "
        "realised by real objects via trilateration (all strict orders / all low-high patterns, all label vectors, "
        "3 policies, 3 radius settings, normal and FP-validation task), (B) planar 3D scenes from object pools in all "
        "four matching modes incl. objects in another coordinate frame and tie scenes, (C) 2D ROI scenes over two "
        "cameras. state = (layer, mode, policy, task, radii?, sizes, weak order of matchable scores, compat matrix, "
        "matchable mask); non-trivial = >=1 matchable pair and (a contested ground truth or an unpaired estimate)")
ASSUMPTIONS = [
    "radius clause asserted in CENTERDISTANCE mode only (there 'radius' unambiguously bounds the centre distance); "
    "cases with a distance within 1e-6 of the radius are skipped as boundary",
    "objects are distinguishable by identity; estimates/ground truths of a case are distinct objects",
]
units, bounds = M.units, M.bounds
_SEED = [0]


def worker_init():
    import os
    _SEED[0] = int(os.environ.get("VERIF_SEED", "0") or 0)


def run_unit(unit, acc):
    for case in M.cases_of(unit, _SEED[0]):
        check_case(case, acc)


def check_case(case, acc):
    acc.case()
    ests, gts, tf = M.build(case)
    ests0, gts0 = list(ests), list(gts)
    snap_e, snap_g = M.snapshot(ests), M.snapshot(gts)
    fpv = case["task"].startswith("fp_validation")
    acc.exec(M.warm_up(case, ests, gts, tf))
    acc.exec()
    try:
        R = M.call(case, ests, gts, tf)
    except Exception as ex:  # noqa
        sig = "raises:%s:%s" % (type(ex).__name__, "empty-gt-fp-validation" if (fpv and not gts and ests) else "other")
        acc.violation(sig, "get_object_results raised %r (|E|=%d |G|=%d task=%s mode=%s)" % (ex, len(ests), len(gts), case["task"], case["mode"]), case)
        acc.state(("raise", case["layer"], case["task"], len(ests), len(gts)))
        return
    acc.compared()
    pairs, err = M.pairing(R, ests0, gts0)
    S, Mk, C, boundary = M.analyse(case, ests0, gts0, tf)
    acc.state(M.class_key(case, S, Mk, C), nontrivial=M.nontrivial(Mk, pairs, len(ests0)))
    acc.outcome((case["layer"], case["mode"], tuple(pairs)))
    if acc.cases % 5003 == 1:
        acc.sample(dict(case, observed_pairs=pairs))

    def bad(sig, msg):
        acc.violation(sig, msg + " | pairs=%s |E|=%d |G|=%d task=%s mode=%s policy=%s radii=%s" % (
            pairs, len(ests0), len(gts0), case["task"], case["mode"], case["policy"], case["radii"]), case)

    if err:
        return bad("foreign-object", err)
    ei = [i for i, _ in pairs]
    gj = [j for _, j in pairs if j is not None]
    if len(set(ei)) != len(ei):
        bad("estimate-twice", "an estimate appears in more than one result")
    if len(set(gj)) != len(gj):
        bad("ground-truth-twice", "a ground truth is paired with more than one estimate")
    for i, j in pairs:
        if j is None:
            continue
        if M.frame_of(case, case["ests"][i]) != M.frame_of(case, case["gts"][j]) or ests0[i].frame_id != gts0[j].frame_id:
            bad("cross-frame-pair", "estimate %d and ground truth %d are expressed in different frames but were paired" % (i, j))
        r = M.radius_of(case, case["gts"][j]["label"])
        if r is not None and case["mode"] == "CENTERDISTANCE":
            d = M.centre_distance(case["ests"][i], case["gts"][j], case["dim"])
            if case["dim"] == 2:  # the library documents an integer ROI centre: allow one pixel per axis
                if d >= r + 1.5:
                    bad("radius", "paired objects are %.3f px apart, radius for the ground truth's label is %s" % (d, r))
            elif abs(d - r) < 1e-6:
                acc.skip("boundary:radius")
            elif not d < r:
                bad("radius", "paired objects are %.6f apart, radius for the ground truth's label is %s" % (d, r))
        if r is not None and case["mode"] == "PLANEDISTANCE" and case["dim"] == 3:
            # independent of the library's own score: plane distance recomputed from the ego-relative construction poses
            se, sg = case["ests"][i], case["gts"][j]
            d = geom.plane_distance_ref((se["x"], se["y"], se.get("yaw", 0.0), se["size"][0], se["size"][1]), (sg["x"], sg["y"], sg.get("yaw", 0.0), sg["size"][0], sg["size"][1]))
            if d is None or abs(d - r) < 1e-6:
                acc.skip("boundary:radius")
            elif not d < r:
                bad("radius", "paired objects have a plane distance of %.6f (frame %s), radius for the ground truth's label is %s" % (d, M.frame_of(case, sg), r))
    if not fpv:
        if len(R) != len(ests0) or sorted(ei) != list(range(len(ests0))):
            bad("estimate-lost", "outside FP validation every estimate must appear in exactly one result")
    else:
        if any(j is None for _, j in pairs):
            bad("fpv-gtless-result", "FP validation must drop unpaired estimates")
        if not gts0 and R:
            bad("fpv-empty-gt", "FP validation with no ground truth must return no result")
    if len(ests) != len(ests0) or any(a is not b for a, b in zip(ests, ests0)) or M.snapshot(ests) != snap_e:
        bad("caller-list-mutated:estimates", "the caller's estimate list was modified")
    if len(gts) != len(gts0) or any(a is not b for a, b in zip(gts, gts0)) or M.snapshot(gts) != snap_g:
        bad("caller-list-mutated:ground-truths", "the caller's ground-truth list was modified")
    # a second call on the same inputs must give the same pairing (no hidden state); layer A repeats it
    # for tables of <= 2 cells only (cost), layers B/C always
    if case["layer"] == "A" and len(ests0) * len(gts0) > 2:
        return
    acc.exec()
    try:
        R2 = M.call(case, ests, gts, tf)
        pairs2, _ = M.pairing(R2, ests0, gts0)
    except Exception as ex:  # noqa
        pairs2 = repr(ex)
    if pairs2 != pairs:
        bad("second-call-differs", "a second identical call returned %s" % (pairs2,))
