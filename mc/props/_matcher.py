"""Shared exploration of the matcher (get_object_results) for C01 and C02.

Layer A  assignment logic: centre-distance score tables realised by real objects through
         trilateration (every prescribed matrix with entries in [10, 11] and <= 3 ground truths).
Layer B  geometry: planar 3D scenes, all four matching modes, mixed frames (BASE_LINK / MAP).
Layer C  2D ROI objects over two cameras, CENTERDISTANCE / IOU2D.
"""
import itertools
import math

from perception_eval.common.evaluation_task import EvaluationTask
from perception_eval.common.label import AutowareLabel, TrafficLightLabel
from perception_eval.evaluation.matching import (CenterDistanceMatching, IOU2dMatching, IOU3dMatching,
                                                 MatchingLabelPolicy, MatchingMode, PlaneDistanceMatching)
from perception_eval.evaluation.result.object_result import get_object_results

from mc.gen import objects as G
from mc.ref import labels as reflab

TL = ["CAR", "PEDESTRIAN"]
POLICIES = ["DEFAULT", "ALLOW_UNKNOWN", "ALLOW_ANY"]
MODE_CLS = {"CENTERDISTANCE": CenterDistanceMatching, "PLANEDISTANCE": PlaneDistanceMatching,
            "IOU2D": IOU2dMatching, "IOU3D": IOU3dMatching}
MAXIMIZE = {"CENTERDISTANCE": False, "PLANEDISTANCE": False, "IOU2D": True, "IOU3D": True}
LA = 5.0
ANCHORS = [(0.0, 0.0, 0.0), (LA, 0.0, 0.0), (0.0, LA, 0.0)]


# ------------------------------------------------------------------------------------------------
# Layer A: realizer
def trilaterate(r):
    r = list(r) + [10.5] * (3 - len(r))
    r1, r2, r3 = r
    x = (r1 * r1 - r2 * r2 + LA * LA) / (2 * LA)
    y = (r1 * r1 - r3 * r3 + LA * LA) / (2 * LA)
    return x, y, math.sqrt(r1 * r1 - x * x - y * y)


def layer_a_case(D, el, gl, policy, radii, task):
    ne, ng = len(el), len(gl)
    gts = [dict(x=ANCHORS[j][0], y=ANCHORS[j][1], z=0.0, label=gl[j], uuid="g%d" % j, size=[1.0, 2.0, 1.0]) for j in range(ng)]
    ests = []
    for i in range(ne):
        x, y, z = trilaterate(D[i]) if ng else (3.0 + i, 1.0, 0.5)
        ests.append(dict(x=x, y=y, z=z, label=el[i], uuid="e%d" % i, score=round(0.9 - 0.1 * i, 3), size=[1.0, 2.0, 1.0]))
    return {"layer": "A", "dim": 3, "ests": ests, "gts": gts, "policy": policy, "radii": radii, "task": task,
            "mode": "CENTERDISTANCE", "tl": TL, "D": [list(r) for r in D]}


def tables(ne, ng, family):
    """score tables (tuples of rows). family 'orders': every strict order; 'lowhigh': every low/high pattern."""
    cells = ne * ng
    if cells == 0:
        return [tuple(() for _ in range(ne))]
    if family == "neartie":   # all strict orders of scores that differ by 2e-7 only (distinct in float64, equal in float32)
        flats = itertools.permutations([10.0 + 2e-7 * k for k in range(cells)])
    elif family == "orders":
        flats = itertools.permutations([10.0 + 0.1 * k for k in range(cells)]) if cells <= 4 else \
            itertools.permutations([10.0 + 0.08 * k for k in range(cells)])
    else:
        flats = (tuple((10.0 if b else 10.6) + 0.01 * k for k, b in enumerate(bits)) for bits in itertools.product((1, 0), repeat=cells))
    return [tuple(tuple(f[i * ng:(i + 1) * ng]) for i in range(ne)) for f in flats]


def radius_for(ne, ng, family):
    cells = ne * ng
    if family == "neartie":
        return 10.5
    if family == "orders":
        step = 0.1 if cells <= 4 else 0.08
        return round(10.0 + step * (cells // 2) - step / 2, 4)
    return 10.3


LAB3 = ("CAR", "PEDESTRIAN", "UNKNOWN")
GLAB3 = ("CAR", "PEDESTRIAN", "FP")
REDUCED_E3 = [("CAR", "CAR", "PEDESTRIAN"), ("CAR", "UNKNOWN", "PEDESTRIAN"), ("UNKNOWN", "CAR", "CAR"), ("PEDESTRIAN", "PEDESTRIAN", "CAR")]
REDUCED_G2 = [("CAR", "PEDESTRIAN"), ("CAR", "FP"), ("PEDESTRIAN", "PEDESTRIAN")]
REDUCED_E2 = [("CAR", "PEDESTRIAN"), ("UNKNOWN", "CAR"), ("PEDESTRIAN", "PEDESTRIAN")]
REDUCED_G3 = [("CAR", "CAR", "PEDESTRIAN"), ("CAR", "FP", "PEDESTRIAN"), ("FP", "CAR", "CAR"), ("PEDESTRIAN", "PEDESTRIAN", "CAR")]


def layer_a_units(tier):
    """-> list of units {layer A, ne, ng, family, labels: 'full'|'reduced'|'two', chunk: (k, n)}."""
    u = []
    for ne in range(0, 3):
        for ng in range(0, 3):
            u.append(dict(layer="A", ne=ne, ng=ng, family="orders", labels="full", chunk=[0, 1]))
    n22 = 12  # split the 2x2 family
    u = [x for x in u if not (x["ne"] == 2 and x["ng"] == 2)]
    u += [dict(layer="A", ne=2, ng=2, family="orders", labels="full", chunk=[k, n22], trim=tier == "quick") for k in range(n22)]
    for ne, ng in ((3, 2), (2, 3), (3, 1), (1, 3), (3, 0), (0, 3)):
        if ne * ng == 6:
            u += [dict(layer="A", ne=ne, ng=ng, family="lowhigh", labels="reduced", chunk=[k, 8], trim=tier == "quick") for k in range(8)]
        else:
            u.append(dict(layer="A", ne=ne, ng=ng, family="orders", labels="full" if tier == "thorough" else "reduced", chunk=[0, 1]))
    for ne, ng in ((1, 2), (2, 1), (2, 2)):
        u.append(dict(layer="A", ne=ne, ng=ng, family="neartie", labels="reduced", chunk=[0, 1]))
    if tier == "thorough":
        for ne, ng in ((3, 2), (2, 3)):
            u += [dict(layer="A", ne=ne, ng=ng, family="orders", labels="reduced", chunk=[k, 48]) for k in range(48)]
            u += [dict(layer="A", ne=ne, ng=ng, family="lowhigh", labels="full_est", chunk=[k, 64]) for k in range(64)]
        u += [dict(layer="A", ne=3, ng=3, family="lowhigh", labels="two", chunk=[k, 128]) for k in range(128)]
        u += [dict(layer="A", ne=4, ng=3, family="lowhigh", labels="one", chunk=[k, 128]) for k in range(128)]
    return u


def layer_a_cases(unit):
    ne, ng = unit["ne"], unit["ng"]
    tabs = tables(ne, ng, unit["family"])
    k, n = unit["chunk"]
    tabs = tabs[k::n]
    rad = radius_for(ne, ng, unit["family"])
    if unit["labels"] == "full":
        els = list(itertools.product(LAB3, repeat=ne))
        gls = list(itertools.product(GLAB3 if ne * ng > 2 else GLAB3 + ("UNKNOWN",), repeat=ng))
    elif unit["labels"] == "full_est":   # every estimate label vector, ground-truth labels from the reduced menu
        els = list(itertools.product(LAB3, repeat=ne))
        gls = sorted(set(REDUCED_G3 if ng == 3 else [g[:ng] for g in REDUCED_G2]))
    elif unit["labels"] == "reduced":
        els = REDUCED_E3 if ne == 3 else [e[:ne] for e in REDUCED_E2]
        gls = REDUCED_G3 if ng == 3 else [g[:ng] for g in REDUCED_G2]
        els, gls = sorted(set(els)), sorted(set(gls))
    elif unit["labels"] == "two":
        els = list(itertools.product(("CAR", "UNKNOWN"), repeat=ne))
        gls = list(itertools.product(("CAR", "PEDESTRIAN"), repeat=ng))
    else:
        els = [("CAR", "UNKNOWN", "PEDESTRIAN", "CAR")[:ne], ("UNKNOWN",) * ne]
        gls = [("CAR", "PEDESTRIAN", "CAR")[:ng], ("FP", "CAR", "PEDESTRIAN")[:ng]]
    radii_menu = [None, [rad, rad], [rad, 100.0]]
    for D in tabs:
        for el in els:
            for gl in gls:
                for pol in POLICIES:
                    for radii in radii_menu:
                        for task in ("detection", "fp_validation"):
                            if unit.get("trim") and task == "fp_validation" and radii is not None and radii[1] != rad:
                                continue   # quick tier: FP validation with {no radius, uniform radius}
                            c = layer_a_case(D, el, gl, pol, radii, task)
                            if ne * ng <= 2:   # calls with the other radius settings are made first (hidden state between calls)
                                c["warm"] = [[100.0, 100.0]] + [r for r in radii_menu if r != radii]
                            yield c


# ------------------------------------------------------------------------------------------------
# Layer B: planar geometry pools.  jitter keeps generic scenes tie-free; tie scenes are explicit.
def pools_b(seed):
    jx, jy = G.jitter(seed)
    est = [
        dict(x=5.0 + jx, y=0.0 + jy, yaw=0.0, size=[2.0, 4.0, 1.5], label="CAR"),
        dict(x=5.9 + jx, y=1.4, yaw=0.4, size=[2.0, 4.0, 1.5], label="PEDESTRIAN"),
        dict(x=9.0, y=3.0 + jy, yaw=-1.1, size=[1.0, 1.0, 1.0], label="UNKNOWN"),
        dict(x=5.0, y=-1.0, yaw=0.0, size=[2.0, 4.0, 1.5], label="CAR"),              # mirror twin of est[4] about y=0 (tie)
        dict(x=5.0, y=1.0, yaw=0.0, size=[2.0, 4.0, 1.5], label="CAR"),
        dict(x=5.2 + jx, y=0.3, yaw=0.4, size=[2.0, 4.0, 1.5], label="CAR", frame="map"),  # other coordinate frame
        dict(x=5.0 + jx, y=0.0 + jy, yaw=0.0, size=[1.0, 2.0, 1.5], label="CAR"),          # concentric with est[0], smaller (equal under DynamicObject.__eq__)
    ]
    gt = [
        dict(x=5.3 + jx, y=0.2 + jy, yaw=0.05, size=[2.0, 4.0, 1.5], label="CAR"),
        dict(x=6.1, y=1.2 + jy, yaw=0.4, size=[2.0, 4.0, 1.5], label="CAR"),
        dict(x=9.2 + jx, y=2.9, yaw=-1.1, size=[1.0, 1.0, 1.0], label="PEDESTRIAN"),
        dict(x=5.0, y=0.0, yaw=0.0, size=[2.0, 4.0, 1.5], label="CAR"),               # equidistant from est[3], est[4]
        dict(x=5.6, y=0.9 + jy, yaw=-1.1, size=[1.0, 1.0, 1.0], label="FP"),
        dict(x=5.1 + jx, y=0.1, yaw=0.4, size=[2.0, 4.0, 1.5], label="CAR", frame="map"),
        dict(x=5.3 + jx, y=0.2 + jy, yaw=0.05, size=[1.6, 3.2, 1.5], label="CAR"),          # concentric with gt[0], smaller
    ]
    for i, s in enumerate(est):
        s.update(uuid="e%d" % i, score=round(0.95 - 0.07 * i, 3), z=0.0)
    for i, s in enumerate(gt):
        s.update(uuid="g%d" % i, z=0.1 * (i % 2))
    return est, gt


RADII_B = {"CENTERDISTANCE": [1.5, 1.5], "PLANEDISTANCE": [1.5, 0.8], "IOU2D": [0.2, 0.05], "IOU3D": [0.2, 0.05]}
# the same kind of setting given as Python ints (what `max_matchable_radii: 2` in a configuration produces)
# ... with a radius of zero for the second label (distance modes: nothing is closer than 0, that label's ground truths are never paired;
# IoU modes: disjoint boxes, IoU exactly 0.0, are not paired)
RADII_B_INT = {"CENTERDISTANCE": [2, 0], "PLANEDISTANCE": [2, 0], "IOU2D": [0, 0], "IOU3D": [0, 0]}


def subsets(n, kmax, both_orders=True):
    out = []
    for k in range(0, kmax + 1):
        for c in itertools.combinations(range(n), k):
            out.append(list(c))
            if k >= 2 and both_orders:
                out.append(list(reversed(c)))
    return out


def layer_b_units(tier):
    kmax = 2 if tier == "quick" else 3
    combos = [("detection", p) for p in POLICIES] + [("fp_validation", p) for p in POLICIES]
    if tier == "quick":   # ALLOW_UNKNOWN x geometry is left to layer A / thorough; FP validation with the default policy
        combos = [("detection", "DEFAULT"), ("detection", "ALLOW_ANY"), ("fp_validation", "DEFAULT")]
    return [dict(layer="B", kmax=kmax, mode=m, task=t, policy=p, both=tier != "quick") for m in MODE_CLS for t, p in combos]


def layer_b_cases(unit, seed):
    est, gt = pools_b(seed)
    ego = G.ego_menu(seed)[1]
    if unit.get("variant") == "dt":
        est = [dict(s_, t=100 + 100000) for s_ in est]
    if unit.get("variant") == "rawname":
        gt = [dict(s_, name={"CAR": "vehicle.car", "PEDESTRIAN": "pedestrian.adult"}.get(s_["label"])) for s_ in gt]
    subs = subsets(len(est), unit["kmax"], unit["both"])
    n_ = 0
    for es in subs:
        for gs in subs:
            n_ += 1
            if unit.get("variant") in ("dt", "rawname") and n_ % 3:
                continue      # the time-offset variant covers every third sub-list pair
            for pol in (unit["policy"],):
                with_int = unit["task"] == "detection" and (unit["both"] or unit["mode"] in ("CENTERDISTANCE", "IOU2D"))
                for radii in ((None, RADII_B[unit["mode"]], RADII_B_INT[unit["mode"]]) if with_int else (None, RADII_B[unit["mode"]])):
                    yield {"layer": "B", "dim": 3, "ests": [est[i] for i in es], "gts": [gt[j] for j in gs], "policy": pol,
                           "radii": radii, "task": unit["task"], "mode": unit["mode"], "tl": TL, "ego": list(ego),
                           "warm": [[0.0, 0.0] if MAXIMIZE[unit["mode"]] else [100.0, 100.0]] + [r for r in (None, RADII_B[unit["mode"]]) if r != radii]}


# ------------------------------------------------------------------------------------------------
# Layer C: 2D ROI pools
def pools_c():
    est = [
        dict(roi=[0, 0, 10, 10], cam="CAM_FRONT", label="CAR"),
        dict(roi=[3, 3, 10, 4], cam="CAM_FRONT", label="PEDESTRIAN"),
        dict(roi=[7, 0, 4, 10], cam="CAM_FRONT", label="UNKNOWN"),
        dict(roi=[0, 0, 10, 10], cam="CAM_BACK", label="CAR"),
        dict(roi=[40, 40, 4, 4], cam="CAM_FRONT", label="CAR"),
        dict(roi=[1, 1, 10, 10], cam="CAM_FRONT_RIGHT", label="CAR"),   # frame name extends CAM_FRONT
    ]
    gt = [
        dict(roi=[1, 0, 10, 10], cam="CAM_FRONT", label="CAR"),
        dict(roi=[3, 2, 10, 5], cam="CAM_FRONT", label="PEDESTRIAN"),
        dict(roi=[6, 0, 5, 10], cam="CAM_FRONT", label="FP"),
        dict(roi=[0, 1, 10, 10], cam="CAM_BACK", label="CAR"),
        dict(roi=[0, 0, 10, 10], cam="CAM_FRONT", label="PEDESTRIAN"),
        dict(roi=[2, 1, 10, 10], cam="CAM_FRONT_LOWER", label="CAR"),
    ]
    for i, s in enumerate(est):
        s.update(uuid="e%d" % i, score=round(0.95 - 0.07 * i, 3))
    for i, s in enumerate(gt):
        s.update(uuid="g%d" % i)
    return est, gt


RADII_C = {"CENTERDISTANCE": [3.0, 2.0], "IOU2D": [0.5, 0.3]}
RADII_C_INT = {"CENTERDISTANCE": [3, 2], "IOU2D": [0, 0]}


def layer_c_units(tier):
    u = [dict(layer="C", kmax=2 if tier == "quick" else 3, mode=m, task=t, both=tier != "quick")
         for m in ("CENTERDISTANCE", "IOU2D") for t in ("detection2d", "fp_validation2d")]
    # variants: "pos" = the 2D objects also carry a 3D position (traffic lights do); "tlr" = traffic-light labels on ROI objects, with
    # uuid_matching_first off and on (ROI objects are matched by their scores either way); "dt" (3D) = estimates stamped 100 ms after
    # the ground truths they are evaluated against
    for m in ("CENTERDISTANCE", "IOU2D"):
        u.append(dict(layer="C", kmax=2, mode=m, task="detection2d", both=False, variant="pos"))
        u.append(dict(layer="C", kmax=2, mode=m, task="detection2d", both=False, variant="tlr"))
    for m in ("CENTERDISTANCE", "PLANEDISTANCE"):
        u.append(dict(layer="B", kmax=2, mode=m, task="detection", policy="DEFAULT", both=False, variant="dt"))
    # the ground truths carry another source spelling of their label than the estimates (car vs vehicle.car, pedestrian vs pedestrian.adult)
    for pol in ("DEFAULT", "ALLOW_UNKNOWN"):
        u.append(dict(layer="B", kmax=2, mode="CENTERDISTANCE", task="detection", policy=pol, both=False, variant="rawname"))
    return u


def pools_tlr():
    est = [dict(roi=[0, 0, 10, 10], label="GREEN"), dict(roi=[3, 3, 10, 4], label="RED"), dict(roi=[7, 0, 4, 10], label="UNKNOWN"),
           dict(roi=[40, 40, 4, 4], label="GREEN"), dict(roi=[2, 1, 9, 9], label="UNKNOWN")]
    gt = [dict(roi=[1, 0, 10, 10], label="GREEN"), dict(roi=[3, 2, 10, 5], label="RED"), dict(roi=[6, 0, 5, 10], label="RED"),
          dict(roi=[0, 0, 10, 10], label="RED"), dict(roi=[41, 41, 4, 4], label="GREEN")]
    for i, s in enumerate(est):
        s.update(uuid="u%d" % i, score=round(0.95 - 0.07 * i, 3), cam="CAM_TRAFFIC_LIGHT", family="traffic_light")
    for i, s in enumerate(gt):   # uuids shared with estimates of other positions: a uuid-driven matcher pairs differently
        s.update(uuid="u%d" % ((i + 1) % 5), cam="CAM_TRAFFIC_LIGHT", family="traffic_light")
    return est, gt


def layer_c_cases(unit):
    var = unit.get("variant")
    est, gt = pools_tlr() if var == "tlr" else pools_c()
    if var == "pos":
        est = [dict(s, pos=[1.0 + 0.1 * i, 0.2, 0.0]) for i, s in enumerate(est)]
        gt = [dict(s, pos=[1.25 + 0.1 * j, 0.1, 0.0]) for j, s in enumerate(gt)]
    es_subs, gs_subs = subsets(len(est), min(2, unit["kmax"]), unit["both"]), subsets(len(gt), unit["kmax"], unit["both"])
    for es in es_subs:
        for gs in gs_subs:
            for pol in POLICIES:
                for radii in ((None, RADII_C[unit["mode"]]) if var else (None, RADII_C[unit["mode"]], RADII_C_INT[unit["mode"]])):
                    c = {"layer": "C", "dim": 2, "ests": [est[i] for i in es], "gts": [gt[j] for j in gs], "policy": pol,
                         "radii": radii, "task": unit["task"], "mode": unit["mode"], "tl": ["GREEN", "RED"] if var == "tlr" else TL,
                         "warm": [[0.0, 0.0] if MAXIMIZE[unit["mode"]] else [500.0, 500.0]] + [r for r in (None, RADII_C[unit["mode"]]) if r != radii]}
                    if var == "tlr":
                        for umf in (False, True):
                            yield dict(c, family="traffic_light", umf=umf)
                    else:
                        yield c


# ------------------------------------------------------------------------------------------------
# ------------------------------------------------------------------------------------------------
# Layer M: the same pools through PerceptionEvaluationManager.add_frame_result (wiring of policy, radii, transforms)
def layer_m_units(tier):
    return [dict(layer="M", frame=fr, policy=p, kmax=2 if tier == "quick" else 3) for fr in ("base_link", "map") for p in POLICIES]


def layer_m_cases(unit, seed):
    est, gt = pools_b(seed)
    est = [dict(s, frame=None) for s in est[:5]]
    gt = [dict(s, frame=None) for s in gt[:5]]
    ego = G.ego_menu(seed)[1]
    subs = subsets(5, unit["kmax"], False)
    for es in subs:
        for gs in subs:
            for radii in (None, [1.5, 0.8], [2, 1]):
                yield {"layer": "M", "dim": 3, "ests": [dict(est[i], frame=unit["frame"]) for i in es], "gts": [dict(gt[j], frame=unit["frame"]) for j in gs],
                       "policy": unit["policy"], "radii": radii, "task": "detection", "mode": "CENTERDISTANCE", "tl": TL, "ego": list(ego)}


# ------------------------------------------------------------------------------------------------
# Layer L: a few larger scenes (sizes beyond the exhaustively enumerated ones; fixed, not sampled)
def layer_l_units(tier):
    return [dict(layer="L", mode=m) for m in MODE_CLS] + [dict(layer="T")]


def layer_t_cases(unit):
    """hand-built exact ties in the label-agnostic pass: the two best cells (0,1) and (1,0) hold exactly the same distance while the
    cell (0,0) is excluded (other frame / beyond the radius); both list orders, both distance modes."""
    ego = [10.0, -5.0, 0.0]     # no rotation: map coordinates are exact translations (the plane scenes below use a rotated ego as well)
    base = dict(yaw=0.0, size=[2.0, 4.0, 1.5], z=0.0)
    frames = [  # (estimates, ground truths)
        ([dict(base, x=5.0, y=0.0, label="PEDESTRIAN"), dict(base, x=7.0, y=0.0, label="PEDESTRIAN", frame="map")],
         [dict(base, x=7.0, y=1.0, label="CAR", frame="map"), dict(base, x=5.0, y=1.0, label="CAR")], None),
        ([dict(base, x=0.0, y=0.0, label="PEDESTRIAN"), dict(base, x=21.0, y=1.0, label="PEDESTRIAN")],
         [dict(base, x=21.0, y=0.0, label="CAR"), dict(base, x=0.0, y=1.0, label="CAR")], [5.0, 5.0]),
        ([dict(base, x=0.0, y=0.0, label="UNKNOWN"), dict(base, x=30.0, y=2.0, label="UNKNOWN"), dict(base, x=60.0, y=0.0, label="PEDESTRIAN")],
         [dict(base, x=30.0, y=0.0, label="CAR"), dict(base, x=0.0, y=2.0, label="CAR"), dict(base, x=60.0, y=2.0, label="CAR")], [4.0, 4.0]),
    ]
    # map-frame pairs behind / beside the ego whose estimate is longer than the ground truth: the plane distance depends on which side of
    # the ground truth is the one nearest to the ego (front plane here), so a radius between the two candidate values separates them
    for gx, gy, gyaw in ((-10.0, 0.5, 0.1), (3.0, -9.0, 1.45), (-6.0, 7.0, -0.8)):
        ux, uy = math.cos(gyaw), math.sin(gyaw)
        for shift in (0.4, -0.4):
            frames.append(([dict(base, x=gx + shift * ux, y=gy + shift * uy, yaw=gyaw, size=[2.0, 6.0, 1.5], label="CAR", frame="map")],
                           [dict(base, x=gx, y=gy, yaw=gyaw, size=[2.0, 4.0, 1.5], label="CAR", frame="map")], [1.0, 1.0]))
    # IoU: a long box and a small square one turned by 45 degrees whose corners overlap by a few centimetres (IoU ~3e-4), next to a
    # ground truth that does not overlap at all; with and without a threshold below that IoU
    iou_frames = []
    for cx, cy, rot in ((10.0, 0.0, 0.0), (-6.0, 8.0, 1.1)):
        a = -math.atan2(2.0, 6.0) + rot
        tx, ty = cx + 4.48 * math.cos(rot), cy + 4.48 * math.sin(rot)
        fx, fy = cx + 30.0 * math.cos(rot), cy + 30.0 * math.sin(rot)
        for radii in (None, [0.0001, 0.0001]):
            iou_frames.append(([dict(base, x=cx, y=cy, yaw=a, size=[2.0, 6.0, 2.0], label="CAR")],
                               [dict(base, x=fx, y=fy, yaw=rot, size=[2.0, 2.0, 2.0], label="CAR"), dict(base, x=tx, y=ty, yaw=rot + math.pi / 4, size=[2.0, 2.0, 2.0], label="CAR")], radii))
    for ests, gts, radii in iou_frames:
        for i, s_ in enumerate(ests):
            s_.update(uuid="e%d" % i, score=0.9)
        for j, s_ in enumerate(gts):
            s_.update(uuid="g%d" % j)
        for mode in ("IOU2D", "IOU3D"):
            for rev_g in (False, True):
                for pol in POLICIES:
                    yield {"layer": "T", "dim": 3, "ests": ests, "gts": list(reversed(gts)) if rev_g else gts, "policy": pol, "radii": radii, "task": "detection",
                           "mode": mode, "tl": TL, "ego": ego}
    for ests, gts, radii in frames:
        for i, s_ in enumerate(ests):
            s_.update(uuid="e%d" % i, score=round(0.9 - 0.1 * i, 2))
        for j, s_ in enumerate(gts):
            s_.update(uuid="g%d" % j)
        for mode in ("CENTERDISTANCE", "PLANEDISTANCE"):
            for rev_e in (False, True):
                for rev_g in (False, True):
                    for pol in ("DEFAULT", "ALLOW_UNKNOWN"):
                        for eg in ((ego,) if len(ests) > 1 else (ego, [100.0, 50.0, 0.8], [-40.0, 12.0, -2.5])):
                            yield {"layer": "T", "dim": 3, "ests": list(reversed(ests)) if rev_e else ests, "gts": list(reversed(gts)) if rev_g else gts, "policy": pol,
                                   "radii": radii, "task": "detection", "mode": mode, "tl": TL, "ego": list(eg)}


def large_scene(seed, variant):
    jx, jy = G.jitter(seed)
    labels_e = ["CAR", "PEDESTRIAN", "UNKNOWN", "CAR", "CAR", "PEDESTRIAN", "CAR", "UNKNOWN", "CAR", "PEDESTRIAN", "CAR", "CAR"]
    labels_g = ["CAR", "CAR", "PEDESTRIAN", "FP", "CAR", "PEDESTRIAN", "CAR", "CAR", "PEDESTRIAN", "CAR"]
    ne, ng = (8, 7) if variant < 2 else (12, 10)
    gts, ests = [], []
    for j in range(ng):
        gx, gy = 4.0 + 3.1 * (j % 4) + jx * j, -6.0 + 4.3 * (j // 4) + jy * j
        gts.append(dict(x=gx, y=gy, z=0.0, yaw=0.3 * j - 1.0, size=[2.0, 4.0, 1.5] if labels_g[j] != "PEDESTRIAN" else [0.7, 0.7, 1.7], label=labels_g[j], uuid="g%d" % j))
    for i in range(ne):
        j = i % ng
        off = (0.35 + 0.11 * i, -0.2 + 0.07 * i) if i < ng else (1.3 + 0.05 * i, 0.9)
        ests.append(dict(x=gts[j]["x"] + off[0], y=gts[j]["y"] + off[1], z=0.05, yaw=gts[j]["yaw"] + 0.1 * (i % 3), size=gts[j]["size"], label=labels_e[i],
                         uuid="e%d" % i, score=round(0.97 - 0.03 * i, 3)))
    if variant % 2:
        ests, gts = list(reversed(ests)), list(reversed(gts))
    return ests, gts


def layer_l_cases(unit, seed):
    for variant in range(4):
        ests, gts = large_scene(seed, variant)
        for pol in POLICIES:
            for radii in (None, RADII_B[unit["mode"]]):
                for task in ("detection", "fp_validation"):
                    yield {"layer": "L", "dim": 3, "ests": ests, "gts": gts, "policy": pol, "radii": radii, "task": task, "mode": unit["mode"], "tl": TL,
                           "ego": list(G.ego_menu(seed)[1])}


def units(tier, seed):
    u = layer_a_units(tier) + layer_b_units(tier) + layer_c_units(tier) + layer_m_units(tier) + layer_l_units(tier)
    # biggest units first (better load balance); order does not change the space
    return sorted(u, key=lambda x: -(x.get("ne", 2) * x.get("ng", 2) + (3 if x["layer"] == "A" and x["labels"] == "full" else 0)))


def cases_of(unit, seed):
    if unit["layer"] == "A":
        return layer_a_cases(unit)
    if unit["layer"] == "B":
        return layer_b_cases(unit, seed)
    if unit["layer"] == "M":
        return layer_m_cases(unit, seed)
    if unit["layer"] == "L":
        return layer_l_cases(unit, seed)
    if unit["layer"] == "T":
        return layer_t_cases(unit)
    return layer_c_cases(unit)


def bounds(tier, seed):
    return {"layer_A": "centre-distance tables realised by trilateration: all strict orders for <=2x2 (and 3x1/1x3) with "
                       "labels est{car,ped,unknown}^|E| x gt{car,ped,fp}^|G|; 3x2/2x3 all 64 low/high tables (reduced labels)"
                       + ("; thorough: 3x2/2x3 all 720 strict orders (reduced labels) and 64 low/high tables (all estimate labels), 3x3 all 512 "
                          "low/high tables (two labels per side), 4x3 all 4096 low/high tables (2x2 label vectors)" if tier == "thorough" else ""),
            "layer_B": "ordered sub-lists of size <= %d from pools of 6 estimates / 6 ground truths, 4 modes" % (2 if tier == "quick" else 3),
            "layer_C": "ROI objects over two cameras, est <= 2, gt <= %d, 2 modes" % (2 if tier == "quick" else 3),
            "layer_L": "4 fixed larger scenes (8x7 and 12x10 objects, both list orders) x 4 modes x 3 policies x radii x tasks",
            "layer_M": "sub-lists <= %d of 5 x 5 pool objects through PerceptionEvaluationManager.add_frame_result (ego and map rendering, 3 policies, radii none / per-label)" % (2 if tier == "quick" else 3),
            "policies": POLICIES, "radii": "none / biting for every label / biting for one label", "tasks": "normal and FP validation",
            "jitter": list(G.jitter(seed))}


# ------------------------------------------------------------------------------------------------
def build(case):
    ego = case.get("ego")
    if case["dim"] == 3:
        ests = [G.mk3d(s, s.get("frame", "base_link"), ego) for s in case["ests"]]
        gts = [G.mk3d(s, s.get("frame", "base_link"), ego) for s in case["gts"]]
    else:
        ests = [G.mk2d(s) for s in case["ests"]]
        gts = [G.mk2d(s) for s in case["gts"]]
    tf = G.transforms(ego) if ego is not None else None
    return ests, gts, tf


def snapshot(objs):
    out = []
    for o in objs:
        if hasattr(o, "roi"):
            out.append((id(o), o.uuid, o.semantic_label.label, o.semantic_score, o.frame_id,
                        None if o.roi is None else (tuple(o.roi.offset), tuple(o.roi.size))))
        else:
            out.append((id(o), o.uuid, o.semantic_label.label, o.semantic_score, o.frame_id,
                        tuple(o.state.position), tuple(o.state.orientation.q), tuple(o.state.size)))
    return out


def call(case, ests, gts, tf):
    if case["layer"] == "M":
        from mc.gen import frames as F
        frame = case["ests"][0]["frame"] if case["ests"] else (case["gts"][0]["frame"] if case["gts"] else "base_link")
        m = F.manager("detection", frame, dict(matching_label_policy=case["policy"], max_matchable_radii=case["radii"]))
        m.frame_results = []
        fr = m.add_frame_result(100, F.frame_gt(gts, tuple(case["ego"])), ests, F.crit_config(m.evaluator_config, dict(max_x=[90.0, 90.0], max_y=[90.0, 90.0])),
                                F.pf_config(m.evaluator_config, [1.0, 1.0]))
        m.frame_results = []
        return fr.object_results
    enum = TrafficLightLabel if case.get("family") == "traffic_light" else AutowareLabel
    kw = {"uuid_matching_first": True} if case.get("umf") else {}
    return get_object_results(
        EvaluationTask(case["task"]), ests, gts, [enum[n] for n in case["tl"]],
        MatchingLabelPolicy[case["policy"]], MatchingMode[case["mode"]], case["radii"], tf, **kw)


def warm_up(case, ests, gts, tf):
    """calls with the other radius settings of the menu on the same objects, made before the call under test: hidden state
    carried between calls (memoised radii, cached scores) then shows in the call under test.  Results are ignored."""
    n = 0
    for r in case.get("warm", []):
        try:
            call(dict(case, radii=r), list(ests), list(gts), tf)
        except Exception:  # noqa
            pass
        n += 1
    return n


def pairing(R, ests, gts):
    """-> (list of (est index, gt index|None), error string|None) using identity."""
    out = []
    for r in R:
        i = G.index_of(r.estimated_object, ests)
        j = None if r.ground_truth_object is None else G.index_of(r.ground_truth_object, gts)
        if i is None:
            return out, "a result's estimated_object is not (identity) an element of the input list"
        if r.ground_truth_object is not None and j is None:
            return out, "a result's ground_truth_object is not (identity) an element of the input list"
        out.append((i, j))
    return out, None


def centre_distance(a, b, dim):
    if dim == 3:  # both objects are rendered in the same frame; a rigid motion keeps the distance
        return math.sqrt((a["x"] - b["x"]) ** 2 + (a["y"] - b["y"]) ** 2 + (a.get("z", 0.0) - b.get("z", 0.0)) ** 2)
    ca = (a["roi"][0] + a["roi"][2] / 2.0, a["roi"][1] + a["roi"][3] / 2.0)
    cb = (b["roi"][0] + b["roi"][2] / 2.0, b["roi"][1] + b["roi"][3] / 2.0)
    return math.hypot(ca[0] - cb[0], ca[1] - cb[1])


def radius_of(case, gl):
    if case["radii"] is None or gl not in case["tl"]:
        return None
    return case["radii"][case["tl"].index(gl)]


def frame_of(case, s):
    return s.get("cam") if case["dim"] == 2 else s.get("frame", "base_link")


def score_matrix(case, ests, gts, tf):
    cls = MODE_CLS[case["mode"]]
    S = [[None] * len(gts) for _ in ests]
    for i, e in enumerate(ests):
        for j, g in enumerate(gts):
            if e.frame_id == g.frame_id:
                S[i][j] = cls(estimated_object=e, ground_truth_object=g, transforms=tf).value
    return S


def analyse(case, ests, gts, tf):
    """reference view of the case: scores, matchable mask, compat matrix, boundary flag."""
    ne, ng = len(ests), len(gts)
    S = score_matrix(case, ests, gts, tf)
    mx = MAXIMIZE[case["mode"]]
    M = [[False] * ng for _ in range(ne)]
    C = [[False] * ng for _ in range(ne)]
    boundary = False
    for i in range(ne):
        for j in range(ng):
            el, gl = case["ests"][i]["label"], case["gts"][j]["label"]
            C[i][j] = reflab.compatible(case["policy"], el, gl)
            if frame_of(case, case["ests"][i]) != frame_of(case, case["gts"][j]):
                continue
            r = radius_of(case, gl)
            if r is None:
                M[i][j] = True
            else:
                # (a score of exactly 0.0 against a radius of exactly 0 is an exact comparison, not a boundary: disjoint boxes have IoU 0.0,
                # coinciding centres distance 0.0 - neither is "closer than" a zero radius)
                if abs(S[i][j] - r) < 1e-6 and not (S[i][j] == 0.0 and r == 0):
                    boundary = True
                M[i][j] = (S[i][j] > r) if mx else (S[i][j] < r)
    return S, M, C, boundary


def better_eq(a, b, mx, tol=1e-9):
    """a scores at least as well as b."""
    return a >= b - tol if mx else a <= b + tol


def ref_greedy(S, M, C, mx):
    ne, ng = len(S), len(S[0]) if S else 0
    pairs, ue, ug = {}, set(range(ne)), set(range(ng))
    for stage in (1, 2):
        while True:
            cand = [(S[i][j], i, j) for i in ue for j in ug if M[i][j] and (C[i][j] or stage == 2)]
            if not cand:
                break
            s, i, j = max(cand, key=lambda t: t[0]) if mx else min(cand, key=lambda t: t[0])
            pairs[i] = j
            ue.discard(i)
            ug.discard(j)
    return pairs


def class_key(case, S, M, C):
    flat = sorted((S[i][j], i, j) for i in range(len(S)) for j in range(len(S[i])) if M[i][j])
    ranks, prev, r = [], None, -1
    for s, i, j in flat:
        if prev is None or abs(s - prev) > 1e-9:
            r += 1
        prev = s
        ranks.append((i, j, r))
    return (case["layer"], case["mode"], case["policy"], case["task"], case["radii"] is not None, len(S), len(S[0]) if S else len(case["gts"]),
            tuple(sorted(ranks)), tuple(map(tuple, C)), tuple(map(tuple, M)))


def nontrivial(M, pairs_list, ne):
    anym = any(any(r) for r in M)
    contested = any(sum(M[i][j] for i in range(len(M))) >= 2 for j in range(len(M[0]))) if M and M[0] else False
    leftover = any(j is None for _, j in pairs_list) or len(pairs_list) < ne
    return anym and (contested or leftover)
