"""C07 - evaluation results do not depend on the coordinate frame of the objects (ego vs map differential)."""
import math
import os

from mc.gen import frames as F
from mc.gen import objects as G
from mc.props import _scenes as S
from mc.ref import filtering as RF
from mc.ref import geom

ID = "C07"
RULE = ("every scene (ordered sub-lists <=2 x <=2, thorough <=3 x <=2, of the 10-estimate / 8-ground-truth pool) x label policies x "
        "critical filters x manager filters {wide x/y, narrow per-label x/y, distance ring} x ego poses of the menu is evaluated twice "
        "through one real manager per rendering: objects in BASE_LINK, and the same scene rendered in MAP (moved by the ego pose); "
        "tracking: 3-frame histories with moving objects, moving ego and track-id patterns {stable, swap, swap-back}; interpolated ground truth: "
        "2-sample generated datasets x 3 ego motions x 3 query times x 3 estimate offsets x 2 critical filters, first the loaded then the interpolated "
        "frame evaluated on one manager (map rendering) against the same physical scene built in the ego frame from the reference interpolation. The two "
        "executions are compared: pairing, per-pair scores, TP/FP/FN/TN, critical GT, AP/APH per label and mode, MOTA/MOTP/ID "
        "switches. state = (task, policy, filters, ego index, outcome summary); non-trivial = a range filter removes something or "
        "a FP/FN exists")
ASSUMPTIONS = [
    "cases in which any decision of the reference model (filter bound, metric/pass-fail threshold, matchable radius, corner ranking "
    "of the plane distance, tie between candidate centre distances) is within 1e-6 of its boundary are skipped, as the quantifier demands",
    "numeric tolerance 1e-6 on scores and metrics (ego-pose coordinates up to 1e3)",
]
TOL = 1e-6
_SEED = [0]
MGR = {
    "wide": (dict(max_x_position=100.0, max_y_position=100.0), dict(target_labels=S.LABELS, max_x=[100.0, 100.0], max_y=[100.0, 100.0])),
    "narrow": (dict(max_x_position=[13.0, 9.5], max_y_position=[6.5, 6.5]), dict(target_labels=S.LABELS, max_x=[13.0, 9.5], max_y=[6.5, 6.5])),
    "ring": (dict(max_x_position=None, max_y_position=None, max_distance=[13.5, 11.0], min_distance=1.5),
             dict(target_labels=S.LABELS, max_d=[13.5, 11.0], min_d=[1.5, 1.5])),
}
METRICS = dict(center_distance_thresholds=[[1.0, 1.0], [0.4, 2.0]], plane_distance_thresholds=[[2.0, 1.0]], iou_2d_thresholds=[0.3],
               iou_3d_thresholds=[0.2], max_matchable_radii=[3.0, 1.5])
ALL_THR = {"cd": [1.0, 0.4, 2.0, 3.0, 1.5], "pd": [2.0, 1.0, 0.5], "iou": [0.3, 0.2]}


PI_EGOS = [(10.0, -5.0, math.pi), (-3.0, 2.0, -math.pi), (250.0, 40.0, math.pi)]
HIGH_EGOS = [(312.5, -148.25, 612.0, 0.7, 0.0, 0.0), (-20.0, 35.0, -45.0, -2.1, 0.0, 0.0)]
FAR_EGOS = [(89412.25, 42356.5, 0.6), (-51234.5, 77001.75, -2.2), (41000.0, -93000.0, 3.0)]
TWIN_DX = [0.0, 0.135, 0.3, 0.6, 1.3]
TWIN_DY = [0.0, 0.2, 0.334, 0.8]


def worker_init():
    _SEED[0] = int(os.environ.get("VERIF_SEED", "0") or 0)


def units(tier, seed):
    u = []
    egos = list(range(1, 2)) if tier == "quick" else [1, 2, 3]
    pols = ["DEFAULT", "ALLOW_ANY"] if tier == "quick" else S.POLICIES
    combos = [("wide", "box_per_label"), ("wide", "ring"), ("narrow", "box"), ("ring", "box_per_label")]
    for e in egos:
        for pol in pols:
            for mf, crit in combos:
                for k in range(2):
                    u.append(dict(task="detection", ego=e, policy=pol, mgr=mf, crit=crit, kmax_e=2 if tier == "quick" else 3, chunk=[k, 2]))
    for e in egos:
        for pat in ("stable", "swap", "swapback"):
            for pol in pols[:2]:
                u.append(dict(task="tracking", ego=e, policy=pol, mgr="wide", crit="box_per_label", pattern=pat))
    # interpolated ground truth through the manager (dataset + get_ground_truth_now_frame(interpolate=True)), two steps on one manager
    for motion in range(3):
        u.append(dict(task="interp", motion=motion))
    # map-frame objects whose coordinates are all integers (hand-made / rounded inputs) against the float ego-frame rendering
    for e in egos:
        u.append(dict(task="intpos", ego=e))
    # ego headings of exactly +-pi (a half turn: quaternion w = 0), and map-frame objects whose frame id is the plain string "map" (what the
    # library's own convert_objects_to_global / interpolation produce)
    for ei, eo in enumerate(PI_EGOS):
        u.append(dict(task="detection", ego=0, ego_override=list(eo), policy="DEFAULT", mgr="wide", crit="box_per_label", kmax_e=2, chunk=[ei % 2, 2]))
    for k in range(2):
        u.append(dict(task="detection", ego=1, str_frame=True, policy="DEFAULT", mgr="wide", crit="ring", kmax_e=2, chunk=[k, 2]))
    u.append(dict(task="tracking", ego=1, str_frame=True, policy="DEFAULT", mgr="wide", crit="box_per_label", pattern="swap"))
    # a minimum point count at the manager level, sparse ground truths, and the ego-frame frame built WITHOUT a transform table (what a
    # caller that works in the ego frame hands over)
    for k in range(2):
        u.append(dict(task="detection", ego=1, minpts=True, policy="DEFAULT", mgr="wide", crit="box_per_label", kmax_e=2, chunk=[k, 2]))
    # slightly tilted boxes (pitch / roll of 1-3 degrees) seen from a level ego whose map height is 612 m / -45 m (terrain elevation)
    for he in range(len(HIGH_EGOS)):
        for k in range(2):
            u.append(dict(task="detection", ego=0, ego_override=list(HIGH_EGOS[he]), tilt=True, policy="DEFAULT", mgr="wide", crit="box_per_label", kmax_e=2, chunk=[k, 2]))
    # near-twin ground truths (same label, heading, height; 0.1 .. 1.3 m apart) with the ego at map-scale coordinates
    for fe in range(len(FAR_EGOS)):
        u.append(dict(task="twins", far_ego=fe))
    return u


def bounds(tier, seed):
    return {"scenes": "sub-lists <=%d estimates x <=2 ground truths" % (2 if tier == "quick" else 3), "ego_poses": 1 if tier == "quick" else 3,
            "policies": 2 if tier == "quick" else 3, "filter_combinations": 4, "tracking": "3 frames x 3 id patterns, reduced pools 6x5"}


def run_unit(unit, acc):
    if unit["task"] == "twins":
        for lab, size in (("PEDESTRIAN", [0.6, 0.6, 1.7]), ("CAR", [2.0, 4.0, 1.5])):
            for dx in TWIN_DX:
                for dy in TWIN_DY:
                    if dx == 0.0 and dy == 0.0:
                        continue
                    for near in ("A", "B", "AB", "none"):
                        for crit in ("box_per_label", "ring"):
                            a = dict(x=6.0, y=2.0, z=0.9, yaw=0.3, size=size, label=lab, uuid="gA", pts=10, vel=[1.0, 0.0, 0.0])
                            b = dict(a, x=6.0 + dx, y=2.0 + dy, uuid="gB")
                            ests = []
                            if "A" in near:
                                ests.append(dict(a, x=a["x"] + 0.04, y=a["y"] + 0.02, uuid="eA", score=0.9))
                            if "B" in near:
                                ests.append(dict(b, x=b["x"] + 0.03, y=b["y"] - 0.02, uuid="eB", score=0.8))
                            check_case(dict(task="detection", ego_index=0, ego_override=list(FAR_EGOS[unit["far_ego"]]), policy="DEFAULT", mgr="wide", crit=crit,
                                            ests=ests, gts=[a, b, dict(x=8.0, y=-2.0, z=0.9, yaw=1.0, size=[2.0, 4.0, 1.5], label="CAR", uuid="gC", pts=10,
                                                                       vel=[1.0, 0.0, 0.0])], seed=_SEED[0], loose=True), acc)
        return
    if unit["task"] == "intpos":
        ego = G.ego_menu(_SEED[0])[unit["ego"]]
        cx, cy, _ = geom.ego_to_map(11.0, 0.0, 0.0, ego)
        for X in range(int(round(cx)) - 5, int(round(cx)) + 6):
            for Y in range(int(round(cy)) - 5, int(round(cy)) + 6):
                for crit in ("box_per_label", "ring"):
                    check_case(dict(task="intpos", ego_index=unit["ego"], X=X, Y=Y, crit=crit, seed=_SEED[0]), acc)
        return
    if unit["task"] == "interp":
        for alpha in (0.25, 0.5, 0.8):
            for off in range(3):
                for crit in ("box_per_label", "ring"):
                    check_case(dict(task="interp", motion=unit["motion"], alpha=alpha, offset=off, crit=crit, seed=_SEED[0]), acc)
        return
    est, gt = S.pools(_SEED[0])
    if unit["task"] == "tracking":
        est, gt = [est[i] for i in (0, 1, 3, 4, 5, 7)], [gt[j] for j in (0, 1, 3, 4, 7)]
        subs_e, subs_g = S.sublists(len(est), 2), S.sublists(len(gt), 2)
    else:
        subs_e, subs_g = S.sublists(len(est), unit["kmax_e"]), S.sublists(len(gt), 2)
    k, n = unit.get("chunk", [0, 1])
    idx = 0
    for es in subs_e:
        for gs in subs_g:
            idx += 1
            if idx % n != k:
                continue
            c = dict(task=unit["task"], ego_index=unit["ego"], policy=unit["policy"], mgr=unit["mgr"], crit=unit["crit"],
                     ests=[est[i] for i in es], gts=[gt[j] for j in gs], seed=_SEED[0])
            if unit.get("ego_override") and not unit.get("tilt"):
                c["ego_override"] = unit["ego_override"]
            if unit.get("str_frame"):
                c["str_frame"] = True
            if unit.get("minpts"):
                c["minpts"] = True
                c["gts"] = [dict(s_, pts=2 if j % 2 == 0 else 10) for j, s_ in enumerate(c["gts"])]
            if unit.get("tilt"):
                c["ego_override"] = unit["ego_override"]
                c["tilt"] = True
                c["ests"] = [dict(s_, pitch=0.012, roll=-0.02) for s_ in c["ests"]]
                c["gts"] = [dict(s_, pitch=-0.035 if j % 2 == 0 else 0.03, roll=0.015) for j, s_ in enumerate(c["gts"])]
            if unit["task"] == "tracking":
                c["pattern"] = unit["pattern"]
            check_case(c, acc)


def _shift(s, k):
    return dict(s, x=s["x"] + 0.4 * k, y=s["y"] + 0.1 * k, yaw=s.get("yaw", 0.0) + 0.05 * k)


def _ego_at(base, k):
    if len(base) == 6:
        return (base[0] + 2.0 * k, base[1] - 1.0 * k, base[2], base[3] + 0.2 * k, base[4], base[5])
    return (base[0] + 2.0 * k, base[1] - 1.0 * k, base[2] + 0.2 * k)


def _near_boundary(case, ests_specs, gts_specs):
    """reference view of all decisions; True if any is within 1e-6 of its boundary."""
    mref = MGR[case["mgr"]][1]
    cref = S.crit_ref_cfg(case["crit"])
    for s in ests_specs:
        for cfg in (mref, cref):
            if RF.keep(s, False, cfg)[1] < RF.BOUNDARY:
                return "filter"
    for s in gts_specs:
        for cfg in (mref, cref):
            if RF.keep(s, True, cfg)[1] < RF.BOUNDARY:
                return "filter"
    dists = []
    for e in ests_specs:
        for g in gts_specs:
            d = math.sqrt((e["x"] - g["x"]) ** 2 + (e["y"] - g["y"]) ** 2)
            dists.append(d)
            if any(abs(d - t) < 1e-6 for t in ALL_THR["cd"]):
                return "threshold:centre-distance"
    dists.sort()
    if any(b - a < 1e-6 for a, b in zip(dists, dists[1:])):
        return "tie:centre-distance"
    for g in gts_specs:
        cs = sorted(math.hypot(x, y) for x, y in geom.box_corners(g["x"], g["y"], g["yaw"], g["size"][0], g["size"][1]))
        if cs[2] - cs[1] < 1e-6:
            return "tie:corner-ranking"
    return None


def _summ(fr, tracking):
    p = fr.pass_fail_result
    pairs = sorted((r.estimated_object.uuid, r.ground_truth_object.uuid if r.ground_truth_object else None,
                    tuple(None if r.ground_truth_object is None else v.value for v in (r.center_distance, r.plane_distance, r.iou_2d, r.iou_3d)))
                   for r in fr.object_results)
    out = {
        "pairs": [(a, b) for a, b, _ in pairs],
        "scores": [s for _, _, s in pairs],
        "tp": sorted(r.estimated_object.uuid for r in p.tp_object_results),
        "fp": sorted(r.estimated_object.uuid for r in p.fp_object_results),
        "fn": sorted(o.uuid for o in p.fn_objects), "tn": sorted(o.uuid for o in p.tn_objects),
        "critical_gt": sorted(o.uuid for o in fr.frame_ground_truth.objects),
        "ap": [[a.ap for a in mp.aps] + [a.ap for a in mp.aphs] + [mp.map, mp.maph] for mp in fr.metrics_score.maps],
    }
    if tracking:
        out["clear"] = [[(c.results["MOTA"], c.results["MOTP"], c.results["id_switch"], c.tp, c.fp) for c in ts.clears] for ts in fr.metrics_score.tracking_scores]
    return out


def _num_close(a, b):
    if isinstance(a, (list, tuple)):
        return len(a) == len(b) and all(_num_close(x, y) for x, y in zip(a, b))
    if a is None or b is None:
        return a is b
    if a == b:
        return True
    if isinstance(a, float) and isinstance(b, float) and (math.isinf(a) or math.isinf(b)):
        return a == b
    return abs(a - b) <= TOL * max(1.0, abs(a), abs(b))


def _diff(a, b):
    out = []
    for k in a:
        if k in ("scores", "ap", "clear"):
            if not _num_close(a[k], b[k]):
                out.append(k)
        elif a[k] != b[k]:
            out.append(k)
    return out


def _scene_summary(sc, tracking):
    out = {"ap": [[a.ap for a in mp.aps] + [a.ap for a in mp.aphs] + [mp.map, mp.maph] for mp in sc.maps], "num_gt": sc.num_ground_truth}
    if tracking:
        out["clear"] = [[(c.results["MOTA"], c.results["MOTP"], c.results["id_switch"], c.tp, c.fp) for c in ts.clears] for ts in sc.tracking_scores]
    return out


# ---- interpolated ground truth -------------------------------------------------------------------
EGO_MOTION = [((0.0, 0.0, 0.0), (2.0, 0.5, 0.3)), ((10.0, -5.0, 0.7), (12.5, -4.0, 1.1)), ((-300.0, 120.0, 3.0), (-301.0, 118.0, -3.1))]
GT_LOCAL = [dict(uuid="i0", cat="car", label="CAR", a=(6.0, 1.0, 0.3), b=(6.8, 1.4, 0.5), size=(2.0, 4.0, 1.5)),
            dict(uuid="i1", cat="car", label="CAR", a=(11.0, -3.0, -1.0), b=(11.2, -2.0, -1.3), size=(2.0, 4.0, 1.5)),
            dict(uuid="i2", cat="pedestrian.adult", label="PEDESTRIAN", a=(7.0, 4.5, 2.0), b=(7.5, 3.0, 2.6), size=(0.6, 0.6, 1.7))]
EST_OFF = [(0.3, -0.1, 0.05), (0.9, 0.4, -0.4), (-0.2, 0.15, 3.0)]
_DS = {}


def _interp_dataset(motion):
    """2-sample dataset; objects are given in each sample's ego frame and written with their global poses."""
    from mc.engine import scratch
    from mc.gen import t4
    import os
    if motion not in _DS:
        d = scratch.new_dir("c07_interp%d" % motion)
        root = os.path.join(d, "ds")
        samples = []
        for k, ego in enumerate(EGO_MOTION[motion]):
            anns = []
            for g in GT_LOCAL:
                x, y, yaw = g["a"] if k == 0 else g["b"]
                gx, gy, gyaw = geom.ego_to_map(x, y, yaw, ego)
                anns.append(dict(inst=g["uuid"], cat=g["cat"], pos=(gx, gy, 0.5), yaw=gyaw, size=g["size"], npts=10, vis="full"))
            samples.append(dict(ts=1000000 + 100000 * k, ego=ego, anns=anns))
        t4.write(root, samples, ["car", "pedestrian.adult"])
        _DS[motion] = root
    return _DS[motion]


def _check_interp(case, acc):
    """map rendering: library-interpolated frame + map-frame estimates; ego rendering: the same physical scene built in the ego frame
    from the reference interpolation (lerp position, shortest-arc yaw, lerp ego pose)."""
    root = _interp_dataset(case["motion"])
    e0, e1 = EGO_MOTION[case["motion"]]
    al = case["alpha"]
    ov = dict(MGR["wide"][0], **METRICS)
    t0, t1 = 1000000, 1100000
    tq = int(round(t0 + al * (t1 - t0)))
    al = (tq - t0) / float(t1 - t0)
    ego_q = (e0[0] + al * (e1[0] - e0[0]), e0[1] + al * (e1[1] - e0[1]), e0[2] + al * geom.wrap(e1[2] - e0[2]))
    runs = {}
    for rendering in ("map", "base_link"):
        m = F.manager("tracking", rendering, ov, datasets=[root])
        m.frame_results = []
        outs = []
        for step, (t, ego) in enumerate(((t0, e0), (tq, ego_q))):
            # physical scene at this step, in global coordinates
            glob = []
            for g in GT_LOCAL:
                ga = geom.ego_to_map(*g["a"], e0)
                gb = geom.ego_to_map(*g["b"], e1)
                a_ = 0.0 if step == 0 else al
                glob.append((g, (ga[0] + a_ * (gb[0] - ga[0]), ga[1] + a_ * (gb[1] - ga[1]), ga[2] + a_ * geom.wrap(gb[2] - ga[2]))))
            dx, dy, dyaw = EST_OFF[case["offset"]]
            if rendering == "map":
                acc.exec()
                fg = m.get_ground_truth_now_frame(t, threshold_min_time=200000 if step else 75000, interpolate_ground_truth=True)
                if fg is None:
                    acc.violation("interp:no-frame", "no ground-truth frame for step %d" % step, case)
                    return None
                ests = []
                for i, (g, (gx, gy, gyaw)) in enumerate(glob):
                    lx, ly, lyaw = geom.map_to_ego(gx, gy, gyaw, ego)
                    ex, ey, eyaw = geom.ego_to_map(lx + dx, ly + dy, lyaw + dyaw, ego)
                    ests.append(G.mk3d(dict(x=ex, y=ey, z=0.5, yaw=eyaw, label=g["label"], uuid="e" + g["uuid"], score=0.9 - 0.1 * i, size=list(g["size"]), t=t,
                                            vel=[1.0, 0.0, 0.0]), "map", (0.0, 0.0, 0.0)))
            else:
                gts, ests = [], []
                for i, (g, (gx, gy, gyaw)) in enumerate(glob):
                    lx, ly, lyaw = geom.map_to_ego(gx, gy, gyaw, ego)
                    gts.append(G.mk3d(dict(x=lx, y=ly, z=0.5, yaw=lyaw, label=g["label"], uuid=g["uuid"], size=list(g["size"]), t=t, vel=[1.0, 0.0, 0.0])))
                    ests.append(G.mk3d(dict(x=lx + dx, y=ly + dy, z=0.5, yaw=lyaw + dyaw, label=g["label"], uuid="e" + g["uuid"], score=0.9 - 0.1 * i,
                                            size=list(g["size"]), t=t, vel=[1.0, 0.0, 0.0])))
                fg = F.frame_gt(gts, ego, t, str(step))
            acc.exec()
            fr = m.add_frame_result(t, fg, ests, F.crit_config(m.evaluator_config, S.CRIT[case["crit"]]), F.pf_config(m.evaluator_config, S.THR["per_label"]))
            outs.append(_summ(fr, True))
        m.frame_results = []
        runs[rendering] = outs
    return runs


def _check_intpos(case, acc):
    from pyquaternion import Quaternion
    from perception_eval.common.label import AutowareLabel, Label
    from perception_eval.common.object import DynamicObject
    from perception_eval.common.schema import FrameID
    from perception_eval.common.shape import Shape, ShapeType
    ego = G.ego_menu(case.get("seed", 0))[case["ego_index"]]
    X, Y = case["X"], case["Y"]
    lx, ly, lyaw = geom.map_to_ego(float(X), float(Y), 0.0, ego)
    spec = dict(x=lx, y=ly, yaw=lyaw, label="CAR", uuid="g0", size=[2.0, 4.0, 1.5], pts=10, score=0.9)
    for cfg in (MGR["wide"][1], S.crit_ref_cfg(case["crit"])):
        if RF.keep(spec, True, cfg)[1] < 1e-6:
            acc.skip("boundary:filter")
            return None
    ov = dict(MGR["wide"][0], **METRICS)
    runs = {}
    for rendering in ("base_link", "map"):
        m = F.manager("detection", rendering, ov)
        m.frame_results = []
        if rendering == "base_link":
            gts = [G.mk3d(spec)]
            ests = [G.mk3d(dict(spec, uuid="e0"))]
        else:
            def mk(uuid):   # integer coordinates, passed through as given
                return DynamicObject(100, FrameID.MAP, (X, Y, 0), Quaternion(axis=[0, 0, 1], angle=0.0), Shape(ShapeType.BOUNDING_BOX, (2.0, 4.0, 1.5)), None, 0.9,
                                     Label(AutowareLabel.CAR, "car", []), pointcloud_num=10, uuid=uuid)
            gts, ests = [mk("g0")], [mk("e0")]
        acc.exec()
        fr = m.add_frame_result(100, F.frame_gt(gts, ego), ests, F.crit_config(m.evaluator_config, S.CRIT[case["crit"]]), F.pf_config(m.evaluator_config, S.THR["per_label"]))
        out = _summ(fr, False)
        out.pop("scores")
        runs[rendering] = [out]
        m.frame_results = []
    return runs


def check_case(case, acc):
    acc.case()
    if case["task"] == "intpos":
        runs = _check_intpos(case, acc)
        if runs is None:
            return
        acc.compared()
        a, b = runs["base_link"][0], runs["map"][0]
        acc.state(("intpos", case["ego_index"], case["crit"], tuple(a["tp"]), tuple(a["critical_gt"])), nontrivial=not a["critical_gt"])
        acc.outcome(("intpos", tuple(a["tp"]), tuple(a["fn"])))
        d = _diff(a, b)
        if d:
            acc.violation("ego-vs-map:integer-coordinates:" + "+".join(d), "object at integer map coordinates (%d, %d): the ego-frame and the map-frame rendering differ in %s: ego=%s map=%s" % (
                case["X"], case["Y"], d, {k: a[k] for k in d}, {k: b[k] for k in d}), case)
        if acc.cases % 37 == 1:
            acc.sample(case)
        return
    if case["task"] == "interp":
        runs = _check_interp(case, acc)
        if runs is None:
            return
        acc.compared()
        last = runs["base_link"][-1]
        acc.state(("interp", case["motion"], case["alpha"], case["offset"], case["crit"], tuple(last["tp"]), tuple(last["fn"])), nontrivial=True)
        acc.outcome(("interp", tuple(last["tp"]), tuple(last["fp"])))
        for k, (x, y) in enumerate(zip(runs["base_link"], runs["map"])):
            x, y = dict(x), dict(y)
            for d_ in (x, y):
                d_.pop("scores", None)   # interpolated poses carry ~1e-9 noise through slerp; decisions and metrics are compared
            d = _diff(x, y)
            if d:
                acc.violation("ego-vs-map:interpolated:" + "+".join(d), "step %d (%s ground truth) differs between the ego-frame and the map-frame rendering in %s: ego=%s map=%s" % (
                    k, "interpolated" if k else "loaded", d, {kk: x[kk] for kk in d}, {kk: y[kk] for kk in d}), case)
                break
        if acc.cases % 7 == 1:
            acc.sample(case)
        return
    tracking = case["task"] == "tracking"
    base_ego = tuple(case["ego_override"]) if case.get("ego_override") else G.ego_menu(case.get("seed", 0))[case["ego_index"]]
    nframes = 3 if tracking else 1
    ov = dict(MGR[case["mgr"]][0], matching_label_policy=case["policy"], **METRICS)
    if case.get("minpts"):
        ov["min_point_numbers"] = [6, 6]
    runs = {}
    skipped = None
    per_frame_specs = []
    for k in range(nframes):
        es = [_shift(s, k) for s in case["ests"]]
        gs = [_shift(s, k) for s in case["gts"]]
        if tracking and len(es) == 2:
            swap = (case["pattern"] == "swap" and k >= 1) or (case["pattern"] == "swapback" and k == 1)
            if swap:
                es[0], es[1] = dict(es[0], uuid=es[1]["uuid"]), dict(es[1], uuid=es[0]["uuid"])
        nb = _near_boundary(case, es, gs)
        if nb:
            skipped = nb
        per_frame_specs.append((es, gs))
    if skipped:
        acc.skip("boundary:" + skipped)
        return
    if case.get("minpts"):
        # the filter seam itself: ego-frame objects filtered without any transform table against the same scene in the map frame
        from perception_eval.common.label import AutowareLabel
        from perception_eval.evaluation.matching.objects_filter import filter_objects
        es0, gs0 = per_frame_specs[0]
        kept = {}
        for rendering in ("base_link", "map"):
            objs = [G.mk3d(dict(s, t=100), rendering, base_ego) for s in gs0]
            acc.exec()
            out_ = filter_objects(objs, True, target_labels=[AutowareLabel.CAR, AutowareLabel.PEDESTRIAN], max_x_position_list=[100.0, 100.0],
                                  max_y_position_list=[100.0, 100.0], min_point_numbers=[6, 6], transforms=None if rendering == "base_link" else G.transforms(base_ego))
            kept[rendering] = sorted(o.uuid for o in out_)
        if kept["base_link"] != kept["map"]:
            acc.violation("ego-vs-map:filter-seam", "filter_objects with a minimum point count keeps %s of the ego-frame ground truths (no transform table) and %s of the same "
                          "scene in the map frame" % (kept["base_link"], kept["map"]), case)
    for rendering in ("base_link", "map"):
        m = F.manager(case["task"], rendering, ov)
        m.frame_results = []
        outs = []
        for k, (es, gs) in enumerate(per_frame_specs):
            ego = _ego_at(base_ego, k)
            ests = [G.mk3d(dict(s, t=100 + k), rendering, ego) for s in es]
            gts = [G.mk3d(dict(s, t=100 + k), rendering, ego) for s in gs]
            if case.get("str_frame") and rendering == "map":
                for o in ests + gts:
                    o.frame_id = "map"
            acc.exec()
            fgt = F.frame_gt(gts, ego, 100 + k, str(k))
            if case.get("minpts") and rendering == "base_link":
                from perception_eval.common.dataset import FrameGroundTruth
                fgt = FrameGroundTruth(100 + k, str(k), list(gts), transforms=None)
            fr = m.add_frame_result(100 + k, fgt, ests, F.crit_config(m.evaluator_config, S.CRIT[case["crit"]]),
                                    F.pf_config(m.evaluator_config, S.THR["per_label"]))
            outs.append(_summ(fr, tracking))
        acc.exec()
        outs.append(_scene_summary(m.get_scene_result(), tracking))
        m.frame_results = []
        runs[rendering] = outs
    acc.compared()
    a, b = runs["base_link"], runs["map"]
    last = a[-2]
    acc.state((case["task"], case["policy"], case["mgr"], case["crit"], case["ego_index"], tuple(case.get("ego_override") or ()), bool(case.get("str_frame")),
               bool(case.get("tilt")), bool(case.get("minpts")), case.get("pattern"),
               tuple(last["pairs"]), tuple(last["tp"]), tuple(last["fn"]), tuple(last["critical_gt"])),
              nontrivial=len(last["critical_gt"]) < len(case["gts"]) or len(last["pairs"]) < len(case["ests"]) or bool(last["fp"]) or bool(last["fn"]))
    acc.outcome((tuple(last["tp"]), tuple(last["fp"]), tuple(last["fn"])))
    if acc.cases % 397 == 1:
        acc.sample(case)
    for k, (x, y) in enumerate(zip(a, b)):
        if case.get("loose"):   # coordinates ~1e5: polygon scores carry ~1e-7 noise; decisions and metrics are compared
            x, y = dict(x), dict(y)
            x.pop("scores", None), y.pop("scores", None)
        if case.get("tilt"):
            # tilted boxes: the yaw pyquaternion extracts is not exactly equivariant under a rotation about z (second order in
            # roll*pitch, ~1e-4 in APH; the convention for tilted boxes is left open, see C09): AP / mAP and all decisions are compared
            x, y = dict(x), dict(y)
            for d_ in (x, y):
                d_["ap"] = [[v for i_, v in enumerate(row) if not (len(row) // 2 - 1 <= i_ < len(row) - 2 or i_ == len(row) - 1)] for row in d_["ap"]]
        d = _diff(x, y)
        if d:
            what = "scene result" if k == len(a) - 1 else "frame %d" % k
            sig = "ego-vs-map:" + "+".join(d)
            acc.violation(sig, "%s differs between the ego-frame and the map-frame rendering in %s: ego=%s map=%s | task=%s policy=%s mgr=%s crit=%s ego=%s" % (
                what, d, {kk: x[kk] for kk in d}, {kk: y[kk] for kk in d}, case["task"], case["policy"], case["mgr"], case["crit"], base_ego), case)
            break
