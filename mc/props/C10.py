"""C10 - object filtering keeps exactly the objects satisfying the configured criteria."""
import itertools
import os

from perception_eval.common.label import AutowareLabel
from perception_eval.evaluation.matching.objects_filter import filter_object_results, filter_objects
from perception_eval.evaluation.result.object_result import DynamicObjectWithPerceptionResult

from mc.gen import frames as F
from mc.gen import objects as G
from mc.ref import filtering as RF

ID = "C10"
RULE = ("per object (the filter is a per-object predicate): label x attribute/name variant {car, car+ignored attribute, name with "
        "ignored fragment, pedestrian, unknown, unknown+ignored attribute, false_positive, bus} x 12 positions straddling every "
        "bound x frame {BASE_LINK without transforms, BASE_LINK with transforms, MAP rendering under 2-3 ego poses, 2D object "
        "without position} x confidence {0.1,0.5,0.9} x point count {0,5} x uuid {u1,u2} x estimate/ground truth, against a menu "
        "of ~190 configurations (target lists, x/y box or distance ring with per-label values, confidence / point / uuid / "
        "ignore lists on and off); per list: every list of length <= 3 over an 8-object pool (order, identity, idempotence, input "
        "untouched, widening ladder); result lists for filter_object_results (estimate x GT-or-none); the manager's _filter_objects. "
        "state = (entry point, config class, object class, kept?); non-trivial = object decided by a range/threshold comparison "
        "or a relaxation")
ASSUMPTIONS = [
    "reference predicate = mc/ref/filtering.py (the documented criteria and relaxations); comparisons closer than 1e-6 to a bound are skipped",
    "not enumerated (unspecified): bounds without target labels, MAP-frame objects without transforms, estimates carrying an ignored "
    "attribute inside filter_object_results, ground truths with a confidence below the threshold",
]
L = AutowareLabel
POS = [(1.0, 0.5), (4.9, 1.9), (5.1, 1.9), (4.9, 2.1), (-4.9, -1.9), (-5.1, 0.0), (9.9, 0.0), (10.1, 0.0), (0.0, -2.1), (1.4, 1.4), (1.5, 1.5), (7.0, 7.2)]
LABS = [("CAR", "car", []), ("CAR", "car", ["ign"]), ("CAR", "vehicle.ign_car", []), ("PEDESTRIAN", "pedestrian", []), ("UNKNOWN", "unknown", []),
        ("UNKNOWN", "unknown", ["ign"]), ("FP", "false_positive", []), ("BUS", "bus", []),
        # attributes that merely CONTAIN the ignored key (an attribute is ignored when it IS the key; a name when it contains it)
        ("CAR", "car", ["partially_ign", "design"]), ("PEDESTRIAN", "pedestrian", ["ign_not"])]
_SEED = [0]


def worker_init():
    _SEED[0] = int(os.environ.get("VERIF_SEED", "0") or 0)


def configs():
    out = []
    # [CAR, CAR, PEDESTRIAN]: what merge_similar_labels produces from car/bus/pedestrian (a label decides by its first entry)
    for tl in (["CAR", "PEDESTRIAN"], ["CAR", "PEDESTRIAN", "UNKNOWN"], None, ["PEDESTRIAN", "CAR"], ["CAR", "CAR", "PEDESTRIAN"]):
        n = len(tl) if tl else 0
        for bounds_ in (None, "xy", "ring"):
            if bounds_ and not tl:
                continue
            for conf in (None, True):
                for pts in (None, True):
                    for uu in (None, ["u1"]):
                        for ign in (None, ["ign"]):
                            if (conf or pts) and not tl:
                                continue
                            if tl and len(tl) != len(set(tl)) and (uu or ign):
                                continue
                            c = dict(target_labels=tl, ignore_attributes=ign, uuids=uu)
                            if bounds_ == "xy":
                                c.update(max_x=[5.0, 10.0, 8.0][:n], max_y=[2.0, 2.0, 1.0][:n])
                            if bounds_ == "ring":
                                c.update(max_d=[5.0, 10.5, 8.0][:n], min_d=[2.0, 1.0, 0.5][:n])
                            if conf:
                                c["conf"] = [0.4, 0.6, 0.2][:n]
                            if pts:
                                c["min_pts"] = [1, 3, 0][:n]
                            out.append(c)
    return out


CFGS = configs()
FRAMES = ["ego_notf", "ego_tf", "map1", "map2", "2d", "ego_emptytf"]


def units(tier, seed):
    u = []
    frames = FRAMES if tier == "quick" else FRAMES + ["map3"]
    for fr in frames:
        for li in range(len(LABS)):
            if li >= 8 and fr not in ("ego_notf", "map1"):
                continue   # the attribute-substring variants are frame independent: two frame kinds
            u.append(dict(kind="object", frame=fr, lab=li))
    for k in range(8):
        u.append(dict(kind="lists", chunk=[k, 8], kmax=2 if tier == "quick" else 3))
    for k in range(4):
        u.append(dict(kind="results", chunk=[k, 4]))
    u.append(dict(kind="manager"))
    u.append(dict(kind="tilt"))
    u.append(dict(kind="reuse"))
    u.append(dict(kind="long"))
    return u


def bounds(tier, seed):
    return {"positions": len(POS), "label_variants": len(LABS), "frames": len(FRAMES) + (1 if tier == "thorough" else 0), "configs": len(CFGS),
            "confidence": 3, "points": 2, "uuids": 2, "list_length": 2 if tier == "quick" else 3, "pool": 8}


def _spec(pos, lab, conf, pts, uuid):
    label, name, attrs = lab
    return dict(x=pos[0], y=pos[1], yaw=0.3, label=label, name=name, attrs=list(attrs), score=conf, pts=pts, uuid=uuid)


def _mk(spec, frame, seed):
    egos = G.ego_menu(seed)
    if frame == "2d":
        o = G.mk2d(dict(roi=[0, 0, 10, 10], label=spec["label"], score=spec["score"], uuid=spec["uuid"]))
        o.semantic_label.name = spec["name"]
        o.semantic_label.attributes = list(spec["attrs"])
        o.pointcloud_num = spec["pts"]
        return o, None, dict(spec, x=None, y=None)
    if frame == "ego_notf":
        return G.mk3d(spec), None, spec
    if frame == "ego_emptytf":   # ego-frame objects with an empty transform table (what a frame built without transforms carries)
        from perception_eval.common.dataset import FrameGroundTruth
        return G.mk3d(spec), FrameGroundTruth(100, "0", [], transforms=None).transforms, spec
    ego = egos[1] if frame in ("ego_tf", "map1") else (egos[2] if frame == "map2" else egos[3])
    return G.mk3d(spec, "map" if frame.startswith("map") else "base_link", ego), G.transforms(ego), spec


def run_unit(unit, acc):
    seed = _SEED[0]
    if unit["kind"] == "object":
        lab = LABS[unit["lab"]]
        for pos in POS:
            for conf in (0.1, 0.5, 0.9):
                for pts in (0, 5):
                    for uuid in ("u1", "u2"):
                        for is_gt in (False, True):
                            check_case(dict(kind="object", frame=unit["frame"], spec=_spec(pos, lab, conf, pts, uuid), is_gt=is_gt, seed=seed), acc)
    elif unit["kind"] == "lists":
        pool = _pool()
        k, n = unit["chunk"]
        idx = 0
        for ln in range(0, unit["kmax"] + 1):
            for sel in itertools.product(range(len(pool)), repeat=ln):
                if len(set(sel)) != len(sel):
                    continue
                idx += 1
                if idx % n != k:
                    continue
                check_case(dict(kind="lists", sel=list(sel), seed=seed), acc)
    elif unit["kind"] == "results":
        pool = _pool()
        k, n = unit["chunk"]
        idx = 0
        pairs = [(e, g) for e in range(len(pool)) for g in [None] + list(range(len(pool))) if e != g]
        for ln in (1, 2):
            for sel in itertools.combinations(range(len(pairs)), ln):
                idx += 1
                if idx % n != k:
                    continue
                if ln == 2 and (sel[0] + sel[1]) % 5:   # every single pair, and a fixed fifth of the ordered two-element lists
                    continue
                check_case(dict(kind="results", pairs=[list(pairs[i]) for i in sel], seed=seed), acc)
        if k == 0:
            # two results whose estimates coincide (same pose, label, time) but carry different confidences, in both orders, with a third one
            for e in range(len(pool)):
                for g in (None, (e + 1) % len(pool)):
                    for scores in ([0.95, 0.05, 0.7], [0.05, 0.95, 0.7], [0.55, 0.45, 0.05]):
                        check_case(dict(kind="results", pairs=[[e, g], [e, None], [(e + 2) % len(pool), None]], scores=scores, seed=seed), acc)
    elif unit["kind"] == "tilt":
        # map-frame objects under an ego pose with pitch and roll (ego on a ramp): the planar distance is the one in the ego's own frame
        for ei in range(len(TILT_EGOS)):
            for pos in TILT_POS:
                for lab in (LABS[0], LABS[3], LABS[4]):
                    for is_gt in (False, True):
                        check_case(dict(kind="tilt", ego=ei, spec=_spec(pos, lab, 0.9, 5, "u1"), is_gt=is_gt, seed=seed), acc)
    elif unit["kind"] == "long":
        for fr in ("base_link", "map"):
            for is_gt in (False, True):
                check_case(dict(kind="long", frame=fr, is_gt=is_gt, seed=seed), acc)
    elif unit["kind"] == "reuse":
        # one map-frame object instance filtered repeatedly while the ego pose changes
        for px in range(0, 12, 2):
            for order in ([1, 2, 3], [3, 1, 2], [2, 3, 1, 2]):
                for lab in (0, 3, 4):
                    for is_gt in (False, True):
                        check_case(dict(kind="reuse", map_xy=[10.0 + px * 1.1, -4.0 + px * 0.7], order=order, lab=lab, is_gt=is_gt, seed=seed), acc)
    else:
        pool = _pool()
        for sel in itertools.combinations(range(len(pool)), 3):
            for fr in ("base_link", "map"):
                check_case(dict(kind="manager", sel=list(sel), frame=fr, seed=seed), acc)


TILT_EGOS = [(10.0, -5.0, 8.0, 0.7, 0.14, -0.05), (-30.0, 12.0, -3.0, -2.2, -0.2, 0.1)]
TILT_POS = [(10.55, 0.0), (10.4, 0.0), (5.03, 0.0), (0.0, 5.04), (-7.9, 1.5), (-8.1, 0.2), (4.9, 1.9), (7.0, 7.2), (1.02, 0.0), (0.0, -2.03)]


def _pool():
    return [
        _spec((1.0, 0.5), LABS[0], 0.9, 5, "u1"), _spec((5.1, 1.9), LABS[0], 0.5, 5, "u2"), _spec((4.9, 1.9), LABS[3], 0.9, 0, "u1"),
        _spec((9.9, 0.0), LABS[3], 0.5, 5, "u2"), _spec((7.0, 7.2), LABS[4], 0.1, 5, "u1"), _spec((1.5, 1.5), LABS[6], 0.5, 0, "u2"),
        _spec((-4.9, -1.9), LABS[7], 0.9, 5, "u1"), _spec((1.4, 1.4), LABS[1], 0.9, 5, "u1"),
    ]


def _kwargs(cfg):
    return RF.to_lib_kwargs(cfg, L)


def _cfg_class(c):
    return (tuple(c["target_labels"] or ()), "xy" if c.get("max_x") else ("ring" if c.get("max_d") else "-"), bool(c.get("conf")), bool(c.get("min_pts")),
            bool(c.get("uuids")), bool(c.get("ignore_attributes")))


def check_case(case, acc):
    acc.case()
    seed = case.get("seed", 0)
    k = case["kind"]
    if k == "object":
        obj, tf, rspec = _mk(case["spec"], case["frame"], seed)
        is_gt = case["is_gt"]
        for ci, c in enumerate(CFGS):
            if is_gt and c.get("conf") is not None and case["spec"]["score"] <= max(c["conf"]):
                continue  # confidence of ground truth: unspecified
            want, margin = RF.keep(rspec, is_gt, c)
            if margin < RF.BOUNDARY:
                acc.skip("boundary")
                continue
            acc.exec()
            try:
                got = filter_objects([obj], is_gt, transforms=tf, **_kwargs(c))
            except Exception as ex:  # noqa
                acc.violation("filter:raises", "filter_objects raised %r for %s with config %s" % (ex, case["spec"], c), dict(case, cfg_index=ci))
                continue
            acc.compared()
            kept = len(got) == 1 and got[0] is obj
            if len(got) > 1 or (got and got[0] is not obj):
                acc.violation("filter:not-sublist", "filter_objects returned something that is not a sub-list of its input", dict(case, cfg_index=ci))
            elif kept != want:
                lab = case["spec"]["label"]
                relaxed = lab == "UNKNOWN" and not is_gt and "UNKNOWN" not in (c["target_labels"] or [])
                sig = "filter:%s:%s:%s" % ("kept-should-drop" if kept else "dropped-should-keep", "gt" if is_gt else "est",
                                            "relaxed-unknown" if relaxed else ("fp-label" if lab == "FP" else "plain"))
                acc.violation(sig, "filter_objects %s %s %s in frame %s under config %s; the documented criteria say %s" % (
                    "keeps" if kept else "drops", "ground truth" if is_gt else "estimate", case["spec"], case["frame"],
                    {a: b for a, b in c.items() if b is not None}, "keep" if want else "drop"), dict(case, cfg_index=ci))
            decided = margin != float("inf")
            acc.state(("object", _cfg_class(c), case["spec"]["label"], bool(case["spec"]["attrs"]), case["frame"], is_gt, kept), nontrivial=decided)
            acc.outcome((kept, want))
        if acc.cases % 2003 == 1:
            acc.sample(case)
    elif k == "tilt":
        import numpy as np
        from mc.ref import geom as _g
        from perception_eval.common.schema import FrameID
        from perception_eval.common.transform import TransformDict
        ego = TILT_EGOS[case["ego"]]
        sp = case["spec"]
        obj = G.mk3d(sp)
        pm = np.array(_g.pose_matrix(*ego)) @ np.array([sp["x"], sp["y"], 0.0, 1.0])
        obj.frame_id = FrameID.MAP
        obj.state.position = (float(pm[0]), float(pm[1]), float(pm[2]))
        tf = TransformDict(G.ego2map_matrix(ego))
        cfgs = [c for c in CFGS if c.get("max_d") and not c.get("conf") and not c.get("uuids") and not c.get("ignore_attributes")]
        for ci, c in enumerate(cfgs):
            want, margin = RF.keep(sp, case["is_gt"], c)
            if margin < RF.BOUNDARY:
                acc.skip("boundary")
                continue
            acc.exec()
            got = filter_objects([obj], case["is_gt"], transforms=tf, **_kwargs(c))
            acc.compared()
            kept = len(got) == 1 and got[0] is obj
            if kept != want:
                acc.violation("tilt:%s" % ("kept-should-drop" if kept else "dropped-should-keep"), "map-frame %s at ego-relative (%.2f, %.2f) under the tilted ego pose %s is %s, "
                              "the documented criteria say %s (config %s)" % ("ground truth" if case["is_gt"] else "estimate", sp["x"], sp["y"], ego, "kept" if kept else "dropped",
                                                                           "keep" if want else "drop", {a: b for a, b in c.items() if b is not None}), dict(case, cfg_index=ci))
            acc.state(("tilt", case["ego"], sp["label"], case["is_gt"], ci, kept), nontrivial=margin != float("inf"))
    elif k == "reuse":
        from mc.ref import geom
        egos = G.ego_menu(seed)
        mx, my = case["map_xy"]
        label, name, attrs = LABS[case["lab"]]
        obj = G.mk3d(dict(x=mx, y=my, yaw=0.3, label=label, name=name, attrs=attrs, score=0.9, pts=5, uuid="u1"), "map", (0.0, 0.0, 0.0))
        cfgs = [c for c in CFGS if c.get("max_d") and not c.get("conf") and not c.get("uuids")][:4] + [c for c in CFGS if c.get("max_x") and not c.get("conf") and not c.get("uuids")][:2]
        for step, ei in enumerate(case["order"]):
            ego = egos[ei]
            lx, ly, _ = geom.map_to_ego(mx, my, 0.3, ego)
            rspec = dict(x=lx, y=ly, label=label, name=name, attrs=attrs, score=0.9, pts=5, uuid="u1")
            tf = G.transforms(ego)
            for ci, c in enumerate(cfgs):
                want, margin = RF.keep(rspec, case["is_gt"], c)
                if margin < RF.BOUNDARY:
                    acc.skip("boundary")
                    continue
                acc.exec()
                got = filter_objects([obj], case["is_gt"], transforms=tf, **_kwargs(c))
                acc.compared()
                kept = len(got) == 1 and got[0] is obj
                if kept != want:
                    acc.violation("reuse:stale-pose", "the same map-frame object filtered under ego pose #%d (step %d of %s) is %s, the documented criteria say %s (ego-relative %.3f, %.3f; config %s)" % (
                        ei, step, case["order"], "kept" if kept else "dropped", "keep" if want else "drop", lx, ly, {a: b for a, b in c.items() if b is not None}), case)
                acc.state(("reuse", case["lab"], case["is_gt"], step, ei, ci, kept), nontrivial=step > 0)
    elif k == "long":
        # a list of 96 objects (every position x every label variant), filtered under every configuration
        ego = G.ego_menu(seed)[2]
        specs = [_spec(pos, lab, 0.5 + 0.004 * i, 5, "u1" if i % 3 else "u2") for i, (pos, lab) in enumerate((p_, l_) for p_ in POS for l_ in LABS)]
        objs = [G.mk3d(s_, case["frame"], ego) for s_ in specs]
        tf = G.transforms(ego)
        for ci, c in enumerate(CFGS):
            if case["is_gt"] and c.get("conf") is not None:
                continue
            keeps = [RF.keep(s_, case["is_gt"], c) for s_ in specs]
            if any(m < RF.BOUNDARY for _, m in keeps):
                acc.skip("boundary")
                continue
            acc.exec()
            out = filter_objects(list(objs), case["is_gt"], transforms=tf, **_kwargs(c))
            acc.compared()
            want = [o for o, (k_, _) in zip(objs, keeps) if k_]
            if len(out) != len(want) or any(a is not b for a, b in zip(out, want)):
                acc.violation("long:not-order-preserving-sublist", "a %d-object list filtered under config %s keeps %d objects, the reference keeps %d" % (
                    len(objs), {a: b for a, b in c.items() if b is not None}, len(out), len(want)), dict(case, cfg_index=ci))
            acc.state(("long", case["frame"], case["is_gt"], _cfg_class(c), len(out)), nontrivial=0 < len(out) < len(objs))
    elif k == "lists":
        pool = _pool()
        specs = [pool[i] for i in case["sel"]]
        ego = G.ego_menu(seed)[1]
        for frame in ("base_link", "map"):
            objs = [G.mk3d(s, frame, ego) for s in specs]
            tf = G.transforms(ego)
            for is_gt in (False, True):
                for ci, c in enumerate(CFGS[::7]):
                    if is_gt and c.get("conf") is not None:
                        continue
                    inp = list(objs)
                    acc.exec()
                    out = filter_objects(inp, is_gt, transforms=tf, **_kwargs(c))
                    acc.compared()
                    want = [o for o, s in zip(objs, specs) if RF.keep(s, is_gt, c)[0]]
                    one = dict(case, frame=frame, is_gt=is_gt, cfg_index=ci * 7)
                    if len(out) != len(want) or any(a is not b for a, b in zip(out, want)):
                        acc.violation("lists:not-order-preserving-sublist", "filter_objects returned uuids %s, expected the sub-list %s (config %s)" % (
                            [o.uuid for o in out], [o.uuid for o in want], {a: b for a, b in c.items() if b is not None}), one)
                    if len(inp) != len(objs) or any(a is not b for a, b in zip(inp, objs)):
                        acc.violation("lists:input-mutated", "filter_objects modified its input list", one)
                    acc.exec()
                    again = filter_objects(list(out), is_gt, transforms=tf, **_kwargs(c))
                    if len(again) != len(out) or any(a is not b for a, b in zip(again, out)):
                        acc.violation("lists:not-idempotent", "filtering the filtered list again changes it", one)
                    # widening ladder: every kept object stays kept when a bound is widened
                    for key in ("max_x", "max_y", "max_d"):
                        if c.get(key):
                            wide = dict(c, **{key: [v * 1.5 for v in c[key]]})
                            acc.exec()
                            o2 = filter_objects(list(objs), is_gt, transforms=tf, **_kwargs(wide))
                            if any(not any(a is b for b in o2) for a in out):
                                acc.violation("lists:widening-removes", "widening %s removes an object that was kept" % key, one)
                    if c.get("min_d"):
                        wide = dict(c, min_d=[v * 0.5 for v in c["min_d"]])
                        o2 = filter_objects(list(objs), is_gt, transforms=tf, **_kwargs(wide))
                        if any(not any(a is b for b in o2) for a in out):
                            acc.violation("lists:widening-removes", "lowering min_distance removes an object that was kept", one)
                    acc.state(("lists", len(specs), frame, is_gt, _cfg_class(c), len(out)), nontrivial=0 < len(out) < len(objs))
    elif k == "results":
        pool = _pool()
        ego = G.ego_menu(seed)[1]
        for frame in ("base_link", "map"):
            tf = G.transforms(ego)
            res, refs = [], []
            for pi_, (e, g) in enumerate(case["pairs"]):
                es = dict(pool[e], attrs=[], name=pool[e]["name"].replace("ign_", ""))
                if case.get("scores"):
                    es["score"] = case["scores"][pi_]
                eo = G.mk3d(es, frame, ego)
                go = None if g is None else G.mk3d(dict(pool[g], score=1.0), frame, ego)
                res.append(DynamicObjectWithPerceptionResult(eo, go, transforms=tf))
                refs.append((es, None if g is None else pool[g]))
            for ci, c in enumerate(CFGS[::3]):
                inp = list(res)
                acc.exec()
                out = filter_object_results(inp, transforms=tf, **_kwargs(c))
                acc.compared()
                want = []
                for r, (es, gs) in zip(res, refs):
                    ok = RF.keep(es, False, dict(c, ignore_attributes=None, uuids=None, min_pts=None))[0]
                    if ok and gs is not None:
                        ok = RF.keep(gs, True, dict(c, conf=None))[0]
                    elif gs is None and c.get("uuids"):
                        ok = False
                    if ok:
                        want.append(r)
                one = dict(case, frame=frame, cfg_index=ci * 3)
                if len(out) != len(want) or any(a is not b for a, b in zip(out, want)):
                    acc.violation("results:wrong-sublist", "filter_object_results kept %s, expected %s (a result is removed iff its estimate or its ground truth "
                                  "fails; config %s)" % ([res.index(r) for r in out], [res.index(r) for r in want], {a: b for a, b in c.items() if b is not None}), one)
                if len(inp) != len(res) or any(a is not b for a, b in zip(inp, res)):
                    acc.violation("results:input-mutated", "filter_object_results modified its input list", one)
                acc.state(("results", len(res), frame, _cfg_class(c), len(out)), nontrivial=0 < len(out) < len(res) or len(res) == 1)
    else:
        pool = _pool()
        ego = G.ego_menu(seed)[1]
        fr = case["frame"]
        specs = [pool[i] for i in case["sel"]]
        for name, ov, ref in (("xy", dict(max_x_position=[5.0, 10.0], max_y_position=[2.0, 2.0], confidence_threshold=[0.4, 0.6], min_point_numbers=[1, 3]),
                               dict(target_labels=["CAR", "PEDESTRIAN"], max_x=[5.0, 10.0], max_y=[2.0, 2.0], conf=[0.4, 0.6], min_pts=[1, 3])),
                              ("ring", dict(max_x_position=None, max_y_position=None, max_distance=[5.0, 10.5], min_distance=1.0, target_uuids=None),
                               dict(target_labels=["CAR", "PEDESTRIAN"], max_d=[5.0, 10.5], min_d=[1.0, 1.0], min_pts=[0, 0]))):
            m = F.manager("detection", fr, ov)
            ests = [G.mk3d(dict(s, uuid="e" + s["uuid"] + str(i)), fr, ego) for i, s in enumerate(specs)]
            gts = [G.mk3d(dict(s, score=1.0, uuid="g" + str(i)), fr, ego) for i, s in enumerate(specs)]
            fg = F.frame_gt(gts, ego)
            acc.exec()
            res, fg2 = m._filter_objects(list(ests), fg)
            acc.compared()
            want_e = [e for e, s in zip(ests, specs) if RF.keep(s, False, ref)[0]]
            want_g = [g for g, s in zip(gts, specs) if RF.keep(dict(s, score=1.0), True, ref)[0]]
            got_e = [r.estimated_object for r in res]
            one = dict(case, mgr=name)
            if sorted(map(id, got_e)) != sorted(map(id, want_e)):
                acc.violation("manager:estimates", "estimates reaching the matcher %s, reference filter keeps %s (%s)" % (
                    [o.uuid for o in got_e], [o.uuid for o in want_e], name), one)
            if [id(o) for o in fg2.objects] != [id(o) for o in want_g]:
                acc.violation("manager:ground-truths", "ground truths reaching the matcher %s, reference filter keeps %s (%s)" % (
                    [o.uuid for o in fg2.objects], [o.uuid for o in want_g], name), one)
            acc.state(("manager", name, fr, len(want_e), len(want_g)), nontrivial=len(want_e) < len(ests) or len(want_g) < len(gts))
