"""C18 - coordinate transforms compose and invert consistently."""
import itertools
import math
import os

import numpy as np
from pyquaternion import Quaternion

from perception_eval.common.schema import FrameID
from perception_eval.common.transform import HomogeneousMatrix, TransformDict, TransformKey

ID = "C18"
RULE = ("rotations: 5 axes x 7 angles (incl. 0, pi, both signs) given as Quaternion, 4-list (both signs) or 3x3 matrix x 5 translations "
        "(up to 1e3) = the transform menu; every transform: inverse round trip of 3 poses, pose transform vs own 4x4 product; every "
        "ordered pair (thorough; quick: every pair over a 40-element sub-menu) composed: value, A-to-C label, mismatched frames rejected, "
        "two-step equality; chains of 3 over frames {base_link, map, cam_front, lidar_top}; registry: every subset of {A->B, B->A, "
        "B->C} x every ordered frame pair query x key spellings {enum, lower str, TransformKey} x argument forms; registry histories: ALL sequences of "
        "length <= 4 (thorough 5) over {set A->B (two matrices), set B->A, delete A->B, delete B->A, query A->B, query B->A} on one "
        "registry instance against a dict-of-matrices reference. state = (kind, rotation "
        "input form, axis, angle class, translation) / (registered subset, query, spelling, outcome); non-trivial = rotation about a tilted "
        "axis or a registry answer through the inverse fallback")
ASSUMPTIONS = ["own 4x4 homogeneous-matrix reference (quaternion-to-matrix formula written out); orientations compared up to quaternion sign; tolerance 1e-9 "
               "(1e-6 relative for translations ~1e3)"]
AXES = [(0, 0, 1), (1, 0, 0), (0, 1, 0), (1, 1, 1), (0.3, -0.5, 0.8)]
ANGLES = [0.0, 0.4, -1.3, math.pi / 2, 2.7, math.pi, -math.pi / 3]
TRANS = [(0.0, 0.0, 0.0), (1.0, 2.0, 3.0), (-300.0, 120.0, 0.5), (1000.0, 1000.0, -2.0), (0.013, -0.029, 7.0)]
FORMS = ["quat", "list", "neglist", "matrix"]
POSES = [((1.0, 0.0, 0.0), (0, 0, 1), 0.0), ((-4.0, 2.5, 1.0), (0, 0, 1), 2.2), ((0.3, 7.0, -2.0), (0.2, 0.1, 0.9), -1.0)]
FR = [FrameID.BASE_LINK, FrameID.MAP, FrameID.CAM_FRONT, FrameID.LIDAR_TOP]
# frame triples (A, B, C) of the registry layer; the second one uses frames whose names contain one another
TRIPLES = [(FrameID.BASE_LINK, FrameID.MAP, FrameID.CAM_FRONT), (FrameID.CAM_TRAFFIC_LIGHT, FrameID.CAM_TRAFFIC_LIGHT_NEAR, FrameID.CAM_TRAFFIC_LIGHT_FAR)]


# registry history alphabet: two alternative A->B matrices, one B->A matrix, deletions and both queries
REG_OPS = [("set", "AB", 0), ("set", "AB", 1), ("set", "BA", 2), ("del", "AB"), ("del", "BA"), ("q", "AB"), ("q", "BA")]
REG_ENTRIES = [(3, 2, 1), (1, 4, 2), (4, 5, 3)]


RET_DANG = [0.0, 1e-7, 1e-5, 2e-4, 9e-4, 3e-3]
RET_DT = [0.0, 1e-6, 5e-4, 2e-3]


def rq(axis, angle):
    n = math.sqrt(sum(a * a for a in axis))
    s = math.sin(angle / 2) / n
    return (math.cos(angle / 2), axis[0] * s, axis[1] * s, axis[2] * s)


def rmat(q):
    w, x, y, z = q
    return np.array([[1 - 2 * (y * y + z * z), 2 * (x * y - z * w), 2 * (x * z + y * w)],
                     [2 * (x * y + z * w), 1 - 2 * (x * x + z * z), 2 * (y * z - x * w)],
                     [2 * (x * z - y * w), 2 * (y * z + x * w), 1 - 2 * (x * x + y * y)]])


def m4(q, t):
    M = np.eye(4)
    M[:3, :3] = rmat(q)
    M[:3, 3] = t
    return M


def menu():
    return [(ai, gi, ti) for ai in range(len(AXES)) for gi in range(len(ANGLES)) for ti in range(len(TRANS))]


def build(entry, form, src, dst):
    ai, gi, ti = entry
    q = rq(AXES[ai], ANGLES[gi])
    if form == "quat":
        rot = Quaternion(q)
    elif form == "list":
        rot = list(q)
    elif form == "neglist":
        rot = [-v for v in q]
    else:
        rot = rmat(q)
    return HomogeneousMatrix(TRANS[ti], rot, src, dst), m4(q, TRANS[ti])


def units(tier, seed):
    u = [dict(kind="single", form=f) for f in FORMS]
    M = menu()
    sub = M if tier == "thorough" else M[::5] + M[2::35]
    for i in range(0, len(sub), 5):
        u.append(dict(kind="pairs", first=[list(e) for e in sub[i:i + 5]], tier=tier))
    u.append(dict(kind="chains"))
    # A->B composed with the B->A transform of a pose that differs by 0 .. 1e-3 (rad, m): the relative motion between two frames
    for i in range(0, len(sub), 20):
        u.append(dict(kind="returns", first=[list(e) for e in sub[i:i + 20]]))
    u.append(dict(kind="registry"))
    # explicit-state search over registry histories: set / delete / query on ONE registry instance
    for first in range(len(REG_OPS)):
        u.append(dict(kind="reg_hist", first=first, depth=4 if tier == "quick" else 5))
    return u


def bounds(tier, seed):
    return {"rotations": len(AXES) * len(ANGLES), "input_forms": FORMS, "translations": len(TRANS), "transforms": len(menu()),
            "pair_menu": len(menu()) if tier == "thorough" else len(menu()[::5] + menu()[2::35]), "registry_subsets": 16, "frames": [f.value for f in FR]}


def run_unit(unit, acc):
    M = menu()
    if unit["kind"] == "single":
        for e in M:
            check_case(dict(kind="single", entry=list(e), form=unit["form"]), acc)
    elif unit["kind"] == "pairs":
        sub = M if unit["tier"] == "thorough" else M[::5] + M[2::35]
        for a in unit["first"]:
            for b in sub:
                check_case(dict(kind="pair", a=list(a), b=list(b)), acc)
    elif unit["kind"] == "returns":
        for a in unit["first"]:
            for da in RET_DANG:
                for dt in RET_DT:
                    check_case(dict(kind="return", a=list(a), dang=da, dt=dt), acc)
    elif unit["kind"] == "chains":
        sub = M[::11]
        for a, b, c in itertools.product(sub[:6], sub[3:9], sub[5:11]):
            for frames in itertools.permutations(range(4), 4):
                if frames[0] > 1:
                    continue
                check_case(dict(kind="chain", a=list(a), b=list(b), c=list(c), frames=list(frames)), acc)
    elif unit["kind"] == "reg_hist":
        def rec(h):
            check_case(dict(kind="reg_hist", ops=list(h)), acc)
            if len(h) < unit["depth"]:
                for i in range(len(REG_OPS)):
                    rec(h + [i])
        rec([unit["first"]])
    else:
        for triple in range(len(TRIPLES)):
            for mask in range(16):   # bit 8: a non-identity same-frame matrix A->A is registered as well (X-to-X queries still return the input)
                for s, d in itertools.product(range(3), repeat=2):
                    for spell in ("enum", "str", "key", "mixed"):
                        check_case(dict(kind="registry", mask=mask, src=s, dst=d, spell=spell, triple=triple), acc)


def close(a, b, tol=1e-9):
    a, b = np.asarray(a, dtype=float), np.asarray(b, dtype=float)
    return a.shape == b.shape and np.all(np.abs(a - b) <= tol * np.maximum(1.0, np.abs(b)))


def same_rot(q, R, tol=1e-9):
    return close(q.rotation_matrix, R, tol)


def check_case(case, acc):
    acc.case()

    def bad(sig, msg):
        acc.violation(sig, msg + " | " + str(case), case)

    k = case["kind"]
    if k == "reg_hist":
        # replay the history on a fresh registry next to a reference model (a plain dict of 4x4 matrices); check the LAST operation
        A, B = FrameID.BASE_LINK, FrameID.MAP
        td = TransformDict()
        ref = {}
        p = (1.5, -2.0, 0.3)
        q = Quaternion(rq((0, 0, 1), 0.7))
        last_out = None
        for n, oi in enumerate(case["ops"]):
            op = REG_OPS[oi]
            final = n == len(case["ops"]) - 1
            if op[0] == "set":
                src, dst = (A, B) if op[1] == "AB" else (B, A)
                H, M = build(REG_ENTRIES[op[2]], "quat", src, dst)
                td[(src, dst)] = H
                ref[op[1]] = M
                last_out = ("set",)
            elif op[0] == "del":
                src, dst = (A, B) if op[1] == "AB" else (B, A)
                acc.exec()
                try:
                    del td[(src, dst)]
                    got = "ok"
                except KeyError:
                    got = "KeyError"
                want = "ok" if op[1] in ref else "KeyError"
                ref.pop(op[1], None)
                last_out = ("del", got)
                if final and got != want:
                    bad("registry-history:delete", "deleting %s: %s, reference registry says %s" % (op[1], got, want))
            else:
                src, dst = (A, B) if op[1] == "AB" else (B, A)
                rev = "BA" if op[1] == "AB" else "AB"
                want = ref[op[1]] if op[1] in ref else (np.linalg.inv(ref[rev]) if rev in ref else None)
                acc.exec()
                try:
                    gp, gr = td.transform((src, dst), p, q)
                    got = "ok"
                except KeyError:
                    got = "KeyError"
                last_out = ("q", got)
                if final:
                    acc.compared()
                    if want is None:
                        if got != "KeyError":
                            bad("registry-history:missing-answered", "query %s answered although neither direction is registered any more" % op[1])
                    elif got != "ok":
                        bad("registry-history:query-failed", "query %s raised KeyError although a direction is registered" % op[1])
                    else:
                        wp = want @ np.array([p[0], p[1], p[2], 1.0])
                        if not close(gp, wp[:3], 1e-7) or not same_rot(gr, want[:3, :3] @ q.rotation_matrix, 1e-8):
                            bad("registry-history:stale-answer", "query %s returns %s, the currently registered matrices give %s" % (op[1], gp, wp[:3]))
        # a deep copy of the registry (what copying a frame or a frame result does) answers like the registry itself
        import copy as _copy
        acc.exec()
        try:
            cp = _copy.deepcopy(td)
        except Exception as ex:  # noqa
            cp = None
            bad("registry-history:deepcopy-raises", "copy.deepcopy of the registry raised %r" % (ex,))
        if cp is not None:
            for name, (src, dst) in (("AB", (A, B)), ("BA", (B, A))):
                outs = []
                for reg_ in (td, cp):
                    try:
                        gp_, gr_ = reg_.transform((src, dst), p, q)
                        outs.append(("ok", tuple(np.round(np.asarray(gp_, dtype=float), 9)), tuple(np.round(gr_.rotation_matrix.ravel(), 9))))
                    except KeyError:
                        outs.append(("KeyError",))
                if outs[0] != outs[1]:
                    bad("registry-history:deepcopy-differs", "after the history, query %s on a deep copy of the registry gives %s, on the registry itself %s" % (name, outs[1][:2], outs[0][:2]))
        acc.state(("reg_hist", tuple(sorted(ref)), tuple(case["ops"][-2:]), last_out), nontrivial=len(case["ops"]) >= 3 and REG_OPS[case["ops"][-1]][0] == "q")
        acc.outcome(("reg_hist", last_out))
        if acc.cases % 997 == 1:
            acc.sample(dict(case, ops_named=[list(map(str, REG_OPS[i])) for i in case["ops"]]))
        return
    if k == "single":
        H, M = build(tuple(case["entry"]), case["form"], FrameID.BASE_LINK, FrameID.MAP)
        acc.exec()
        acc.compared()
        if not close(H.matrix, M):
            bad("matrix", "homogeneous matrix differs from the reference 4x4")
        inv = H.inv()
        acc.exec()
        if inv.src != FrameID.MAP or inv.dst != FrameID.BASE_LINK:
            bad("inv:labels", "inverse labelled %s->%s" % (inv.src, inv.dst))
        if not close(inv.matrix, np.linalg.inv(M), 1e-9):
            bad("inv:value", "inverse matrix differs from the reference inverse")
        for p, ax, ang in POSES:
            q = rq(ax, ang)
            acc.exec(3)
            pos = H.transform(p)
            pos2, rot2 = H.transform(p, Quaternion(q))
            back_p, back_r = inv.transform(pos2, rot2)
            want = M @ np.array([p[0], p[1], p[2], 1.0])
            if not close(pos, want[:3]) or not close(pos2, want[:3]):
                bad("transform:position", "transformed position %s / %s, matrix product gives %s" % (pos, pos2, want[:3]))
            if not same_rot(rot2, M[:3, :3] @ rmat(q)):
                bad("transform:orientation", "transformed orientation differs from the product of the rotation matrices")
            if not close(back_p, p, 1e-6 if abs(TRANS[case["entry"][2]][0]) > 100 else 1e-9) or not same_rot(back_r, rmat(q), 1e-9):
                bad("roundtrip", "transform followed by its inverse returns position %s for %s" % (back_p, p))
            # keyword forms and list rotation agree
            pos3, rot3 = H.transform(position=p, rotation=list(q))
            if not close(pos3, pos2) or not same_rot(rot3, rot2.rotation_matrix):
                bad("transform:keyword-form", "keyword / list-rotation call differs from the positional call")
        # positions given as arrays of another dtype (integer grid coordinates, float32): the result is the real-valued matrix product,
        # and the caller's array is left as it was
        for arr in (np.array([3, -2, 1]), np.array([0, 0, 0], dtype=np.int32), np.array([1.5, -2.25, 0.5], dtype=np.float32), [3, -2, 1], (7, 0, -4)):
            keep = np.array(arr, copy=True) if isinstance(arr, np.ndarray) else None
            want_i = M @ np.array([float(arr[0]), float(arr[1]), float(arr[2]), 1.0])
            acc.exec(2)
            got_i = H.transform(arr)
            got_k = H.transform(position=arr)
            tol_i = 1e-4 if (isinstance(arr, np.ndarray) and arr.dtype == np.float32) else 1e-9
            if not close(np.asarray(got_i, dtype=float), want_i[:3], tol_i) or not close(np.asarray(got_k, dtype=float), want_i[:3], tol_i):
                bad("transform:position-dtype", "position %r (%s): transformed to %s, the matrix product gives %s" % (
                    arr, getattr(arr, "dtype", type(arr).__name__), np.asarray(got_i), want_i[:3]))
            if keep is not None and not np.array_equal(arr, keep):
                bad("transform:caller-array-modified", "the caller's position array %s was changed to %s" % (keep, arr))
        # a transform built from the caller's arrays keeps its meaning when the caller reuses those buffers afterwards: forward and
        # inverse must stay consistent with each other
        ai, gi, ti = case["entry"]
        pos_buf = np.array(TRANS[ti], dtype=float)
        rot_buf = rmat(rq(AXES[ai], ANGLES[gi]))
        H2 = HomogeneousMatrix(pos_buf, rot_buf, FrameID.BASE_LINK, FrameID.MAP)
        M4 = m4(rq(AXES[ai], ANGLES[gi]), TRANS[ti])
        H3 = HomogeneousMatrix.from_matrix(M4, FrameID.BASE_LINK, FrameID.MAP)
        pos_buf += 7.5
        rot_buf[:] = np.eye(3)
        M4[:3, 3] += 3.0
        acc.exec(4)
        for nm, Hx in (("array inputs", H2), ("from_matrix", H3)):
            p0, ax0, ang0 = POSES[1]
            q0 = Quaternion(rq(ax0, ang0))
            fp, fr_ = Hx.transform(p0, q0)
            bp, br = Hx.inv().transform(fp, fr_)
            if not close(bp, p0, 1e-6) or not same_rot(br, q0.rotation_matrix, 1e-8):
                bad("roundtrip:after-caller-buffer-reuse", "%s: after the caller modified its own arrays, transform followed by inverse returns %s for %s" % (nm, bp, p0))
        acc.state(("single", case["form"], ai, gi, ti), nontrivial=ai >= 3 and gi != 0)
        acc.outcome(("single", gi))
        if acc.cases % 53 == 1:
            acc.sample(case)
    elif k == "pair":
        AB, MA = build(tuple(case["a"]), "quat", FrameID.BASE_LINK, FrameID.MAP)
        BC, MB = build(tuple(case["b"]), "matrix", FrameID.MAP, FrameID.CAM_FRONT)
        acc.exec(2)
        AC = BC.dot(AB)
        acc.compared()
        if AC.src != FrameID.BASE_LINK or AC.dst != FrameID.CAM_FRONT:
            bad("dot:labels", "composition of base_link->map with map->cam_front is labelled %s->%s" % (AC.src, AC.dst))
        if not close(AC.matrix, MB @ MA, 1e-9):
            bad("dot:value", "composition differs from the 4x4 product")
        AC2 = AB.transform(BC)
        if AC2.src != FrameID.BASE_LINK or AC2.dst != FrameID.CAM_FRONT or not close(AC2.matrix, MB @ MA, 1e-9):
            bad("transform(matrix)", "AB.transform(BC) is not the A-to-C composition")
        p, ax, ang = POSES[1]
        q = Quaternion(rq(ax, ang))
        p1, r1 = AB.transform(p, q)
        p2, r2 = BC.transform(p1, r1)
        p3, r3 = AC.transform(p, q)
        if not close(p2, p3, 1e-8) or not same_rot(r3, r2.rotation_matrix, 1e-9):
            bad("dot:two-step", "transforming with the composition differs from transforming in two steps: %s vs %s" % (p3, p2))
        for wrong in ((AB, AB), (AB, BC)):
            try:
                wrong[0].dot(wrong[1])
                bad("dot:mismatch-accepted", "composition with mismatched frames (%s<-%s . %s<-%s) was not rejected" % (wrong[0].dst, wrong[0].src, wrong[1].dst, wrong[1].src))
            except ValueError:
                pass
        # the same through transform(matrix) / transform(matrix=...): X.transform(Y) composes Y after X, so Y must start where X ends
        for first_, second_ in ((BC, AB), (AB, AB), (BC, BC)):
            for kw in (False, True):
                try:
                    out_ = first_.transform(matrix=second_) if kw else first_.transform(second_)
                    bad("transform(matrix):mismatch-accepted", "(%s->%s).transform(%s->%s) was not rejected but returned %s->%s" % (
                        first_.src, first_.dst, second_.src, second_.dst, out_.src, out_.dst))
                except ValueError:
                    pass
        acc.state(("pair", case["a"][0], case["a"][1], case["b"][0], case["b"][1], case["a"][2], case["b"][2]), nontrivial=case["a"][0] >= 3 or case["b"][0] >= 3)
        acc.outcome(("pair",))
        if acc.cases % 2003 == 1:
            acc.sample(case)
    elif k == "return":
        AB, MA = build(tuple(case["a"]), "quat", FrameID.BASE_LINK, FrameID.MAP)
        # the pose a moment later: turned by dang about z and moved by dt along x and -y; BA' = its inverse
        Md = m4(rq((0, 0, 1), case["dang"]), (case["dt"], -case["dt"], 0.0))
        MA2 = MA @ Md
        Minv = np.linalg.inv(MA2)
        BA = HomogeneousMatrix(tuple(Minv[:3, 3]), Minv[:3, :3].copy(), FrameID.MAP, FrameID.BASE_LINK)
        want = Minv @ MA
        acc.exec(3)
        AA = BA.dot(AB)
        AA2 = AB.transform(BA)
        acc.compared()
        for nm, H in (("dot", AA), ("transform(matrix)", AA2)):
            if H.src != FrameID.BASE_LINK or H.dst != FrameID.BASE_LINK:
                bad("return:labels", "%s of base_link->map with map->base_link is labelled %s->%s" % (nm, H.src, H.dst))
            if not close(H.matrix, want, 1e-9) or not close(H.position, want[:3, 3], 1e-9) or not same_rot(H.rotation, want[:3, :3], 1e-9):
                bad("return:value", "%s: composition of A->B with the B->A transform of a pose %g rad / %g m away differs from the 4x4 product by %.3g" % (
                    nm, case["dang"], case["dt"], float(np.max(np.abs(np.asarray(H.matrix) - want)))))
        p, ax, ang = POSES[1]
        q = Quaternion(rq(ax, ang))
        p1, r1 = AB.transform(p, q)
        p2, r2 = BA.transform(p1, r1)
        p3, r3 = AA.transform(p, q)
        if not close(p2, p3, 1e-8) or not same_rot(r3, r2.rotation_matrix, 1e-9):
            bad("return:two-step", "transforming with the composition differs from transforming in two steps: %s vs %s" % (p3, p2))
        # two small same-frame transforms composed
        S1 = HomogeneousMatrix((case["dt"], 0.0, 0.0), rmat(rq((0, 0, 1), case["dang"])), FrameID.MAP, FrameID.MAP)
        S2 = HomogeneousMatrix((0.0, case["dt"] / 2, 0.0), rmat(rq((0, 0, 1), case["dang"] / 3)), FrameID.MAP, FrameID.MAP)
        acc.exec()
        SS = S2.dot(S1)
        wantS = m4(rq((0, 0, 1), case["dang"] / 3), (0.0, case["dt"] / 2, 0.0)) @ m4(rq((0, 0, 1), case["dang"]), (case["dt"], 0.0, 0.0))
        if not close(SS.matrix, wantS, 1e-9):
            bad("return:small-same-frame", "two map->map transforms of %g rad / %g m compose to a matrix %.3g away from the 4x4 product" % (
                case["dang"], case["dt"], float(np.max(np.abs(np.asarray(SS.matrix) - wantS)))))
        acc.state(("return", case["a"][0], case["a"][1], case["a"][2], case["dang"], case["dt"]), nontrivial=case["dang"] > 0 or case["dt"] > 0)
        acc.outcome(("return",))
    elif k == "chain":
        f = [FR[i] for i in case["frames"]]
        H1, M1 = build(tuple(case["a"]), "quat", f[0], f[1])
        H2, M2 = build(tuple(case["b"]), "list", f[1], f[2])
        H3, M3 = build(tuple(case["c"]), "matrix", f[2], f[3])
        acc.exec(2)
        left = H3.dot(H2).dot(H1)
        right = H3.dot(H2.dot(H1))
        acc.compared()
        for nm, H in (("left", left), ("right", right)):
            if H.src != f[0] or H.dst != f[3] or not close(H.matrix, M3 @ M2 @ M1, 1e-8):
                bad("chain:" + nm, "3-step composition is labelled %s->%s or differs from the product" % (H.src, H.dst))
        # inverse of the chain = chain of inverses
        inv = H1.inv().dot(H2.inv()).dot(H3.inv())
        if inv.src != f[3] or inv.dst != f[0] or not close(inv.matrix, np.linalg.inv(M3 @ M2 @ M1), 1e-7):
            bad("chain:inverse", "chain of inverses differs from the inverse of the chain")
        acc.state(("chain", tuple(case["frames"]), case["a"][0], case["b"][0], case["c"][0]), nontrivial=True)
    else:
        A, B, C = TRIPLES[case.get("triple", 0)]
        names = [A, B, C]
        reg = []
        e1, e2, e3 = (3, 2, 1), (1, 4, 2), (4, 5, 3)
        mats = {}
        if case["mask"] & 1:
            H, M = build(e1, "quat", A, B)
            reg.append(H)
            mats[(0, 1)] = M
        if case["mask"] & 2:
            H, M = build(e2, "quat", B, A)
            reg.append(H)
            mats[(1, 0)] = M
        if case["mask"] & 4:
            H, M = build(e3, "quat", B, C)
            reg.append(H)
            mats[(1, 2)] = M
        if case["mask"] & 8:
            H, M = build((2, 3, 2), "quat", A, A)
            reg.append(H)
        td = TransformDict(reg)
        s, d = case["src"], case["dst"]
        sp = case["spell"]
        key = {"enum": (names[s], names[d]), "str": (names[s].value, names[d].value), "key": TransformKey(names[s], names[d]),
               "mixed": (names[s].value.upper(), names[d])}[sp]
        p = (1.5, -2.0, 0.3)
        q = Quaternion(rq((0, 0, 1), 0.7))
        if (s, d) in mats:
            want, how = mats[(s, d)], "direct"
        elif (d, s) in mats:
            want, how = np.linalg.inv(mats[(d, s)]), "inverse"
        elif s == d:
            want, how = np.eye(4), "identity"
        else:
            want, how = None, "missing"
        if s == d:
            how = "identity"
            want = np.eye(4)
        acc.exec()
        try:
            got = td.transform(key, p, q)
            outcome = "ok"
        except KeyError:
            got, outcome = None, "KeyError"
        except Exception as ex:  # noqa
            got, outcome = None, type(ex).__name__
        acc.compared()
        if sp == "mixed" and (outcome != "ok" or (s == d and case["mask"] & 8)) and how != "missing":
            # upper-case strings are documented for FrameID.from_value only; registry lookups by upper-case str are not demanded
            acc.skip("upper-case-key")
        elif how == "missing":
            if outcome == "ok":
                bad("registry:missing-answered", "query %s->%s answered although neither direction is registered" % (names[s], names[d]))
            elif outcome != "KeyError" and sp != "mixed":
                bad("registry:wrong-exception", "query with neither direction registered raised %s instead of KeyError" % outcome)
        else:
            if outcome != "ok":
                bad("registry:" + how + "-failed", "query %s->%s (%s, spelling %s) raised %s" % (names[s], names[d], how, sp, outcome))
            else:
                gp, gr = got
                wp = want @ np.array([p[0], p[1], p[2], 1.0])
                if how == "identity":
                    if not (gp is p and gr is q) and not (close(gp, p) and same_rot(gr, q.rotation_matrix)):
                        bad("registry:identity", "X-to-X query does not return its input")
                elif not close(gp, wp[:3], 1e-7) or not same_rot(gr, want[:3, :3] @ q.rotation_matrix, 1e-8):
                    bad("registry:" + how + "-value", "query %s->%s (%s): position %s, expected %s" % (names[s], names[d], how, gp, wp[:3]))
                # position-only and matrix forms
                gp2 = td.transform(key, p)
                if not close(gp2, gp, 1e-9):
                    bad("registry:position-form", "position-only query differs from the pose query")
        acc.state(("registry", case.get("triple", 0), case["mask"], s, d, sp, how, outcome), nontrivial=how == "inverse")
        acc.outcome((how, outcome))
        if acc.cases % 17 == 1:
            acc.sample(case)
