"""Scene alphabet shared by the frame-level checks (C03, C04, C07, C08, C19).

All poses are ego-relative; a scene is rendered in the ego frame (BASE_LINK) or in the map frame
(objects moved by the ego pose, transforms supplied)."""
import itertools

from mc.gen import objects as G

LABELS = ["CAR", "PEDESTRIAN"]  # target labels (config names: car, pedestrian)


def pools(seed):
    jx, jy = G.jitter(seed)
    gt = [
        dict(x=5.0 + jx, y=0.0 + jy, yaw=0.4, label="CAR"),                                   # inside every region
        dict(x=9.0 + jy, y=3.0 + jx, yaw=-1.1, label="CAR"),                                  # inside
        dict(x=6.0 + jx, y=-2.5, yaw=2.9, label="PEDESTRIAN", size=[0.6, 0.6, 1.7]),          # inside (also the tighter pedestrian box)
        dict(x=14.0, y=-1.0 + jy, yaw=0.4, label="CAR"),                                      # outside x
        dict(x=5.6 + jy, y=1.5, yaw=-0.3, label="FP", size=[1.0, 1.0, 1.0]),                  # false-positive-labelled ground truth
        dict(x=1.0, y=0.5 + jy, yaw=0.1, label="CAR"),                                        # inside the box, inside the ring's hole
        dict(x=7.0, y=2.0 + jx, yaw=0.0, label="BUS", size=[2.5, 8.0, 3.0]),                  # non-target label
        dict(x=10.0 + jx, y=1.0, yaw=1.3, label="PEDESTRIAN", size=[0.6, 0.6, 1.7]),          # inside car bounds, outside tighter pedestrian bounds
    ]
    est = [
        dict(x=5.31 + jx, y=-0.17 + jy, yaw=0.5, label="CAR"),                                # close to gt0 (plane distance ~0.35)
        dict(x=10.1 + jy, y=3.3 + jx, yaw=-1.0, label="CAR"),                                 # ~1.1 from gt1: TP at 2.0, not at 0.5
        dict(x=6.2 + jx, y=-2.4, yaw=-0.4, label="PEDESTRIAN", size=[0.6, 0.6, 1.7]),         # close to gt2, very different heading
        dict(x=13.8, y=-1.2 + jy, yaw=0.4, label="CAR"),                                      # outside, near gt3 (outside)
        dict(x=11.7, y=-1.0 + jx, yaw=0.4, label="CAR"),                                      # inside, its nearest ground truth gt3 is outside
        dict(x=5.4 + jy, y=0.6, yaw=0.4, label="UNKNOWN"),                                    # unknown estimate near gt0
        dict(x=3.0, y=-5.0 + jx, yaw=0.0, label="CAR"),                                       # inside, far from every ground truth
        dict(x=11.0 + jx, y=0.0 + jy, yaw=0.0, label="UNKNOWN"),                              # unknown: outside the mean bound of per-label boxes
        dict(x=7.2, y=2.1 + jx, yaw=0.0, label="BUS", size=[2.5, 8.0, 3.0]),                  # non-target estimate
        dict(x=5.7 + jy, y=1.4, yaw=0.0, label="CAR", size=[1.0, 1.0, 1.0]),                  # on top of the FP-labelled gt4
    ]
    for i, s in enumerate(gt):
        s.setdefault("size", [2.0, 4.0, 1.5])
        s.update(uuid="g%d" % i, z=0.0, pts=10, vel=[1.0, 0.5, 0.0])
    for i, s in enumerate(est):
        s.setdefault("size", [2.0, 4.0, 1.5])
        s.update(uuid="e%d" % i, z=0.0, score=round(0.93 - 0.07 * i, 3), vel=[1.0, 0.4, 0.0])
    return est, gt


# critical-object filters (per-label lists for [car, pedestrian])
CRIT = {
    "box": dict(max_x=[12.0, 12.0], max_y=[6.0, 6.0]),
    "box_per_label": dict(max_x=[12.0, 8.0], max_y=[6.0, 4.0]),
    "ring": dict(max_d=[12.0, 12.0], min_d=[2.0, 2.0]),
    "wide": dict(max_x=[60.0, 60.0], max_y=[60.0, 60.0]),
    "ring_nonuni": dict(max_d=[12.5, 11.0], min_d=[10.0, 2.0]),      # per-label inner radii that differ widely (mean 6.0)
}
THR = {"tight": [0.5, 0.5], "loose": [2.0, 2.0], "per_label": [0.5, 2.0], "zero": [0.0, 0.0]}
POLICIES = ["DEFAULT", "ALLOW_UNKNOWN", "ALLOW_ANY"]


def sublists(n, kmax, both_orders=False):
    out = []
    for k in range(0, kmax + 1):
        for c in itertools.combinations(range(n), k):
            out.append(list(c))
            if both_orders and k >= 2:
                out.append(list(reversed(c)))
    return out


def crit_ref_cfg(crit):
    """critical filter -> reference filter cfg (mc/ref/filtering.py)."""
    c = dict(CRIT[crit]) if isinstance(crit, str) else dict(crit)
    c["target_labels"] = LABELS
    return c
