"""C13 - scene scores pool the frame results; frame evaluation is history-independent.

Explicit-state search over operation histories of a real PerceptionEvaluationManager."""
import contextlib
import copy
import io
import os
from fractions import Fraction as Fr

from perception_eval.common.label import AutowareLabel, Label
from perception_eval.config import PerceptionEvaluationConfig
from perception_eval.evaluation.matching import MatchingMode
from perception_eval.evaluation.result.perception_frame_config import CriticalObjectFilterConfig, PerceptionPassFailConfig
from perception_eval.manager import PerceptionEvaluationManager

from mc.engine import scratch
from mc.gen import t4
from mc.ref import ap as RAP
from mc.ref import geom

ID = "C13"
RULE = ("depth-first explicit-state search over ALL histories of depth <= 3 (quick) / <= 4 (thorough) of 18 operations "
        "add_frame_result(frame k in {0,1,2} x estimates {perfect, shifted, one missing + one extra} x critical filter {wide, "
        "narrow}), and of depth <= 2 (quick) / <= 3 (thorough) of 30 operations (adds estimate lists {cars only, empty} and an alternative ground-truth frame object with the same frame name); tracking world: every history [plain, extended, plain] on a real manager over a generated 3-frame dataset, in two worlds (detection/base_link, tracking/map with a "
        "moving ego); get_scene_result() is queried (twice) in every state. state = tuple of frame-result summaries (pairing, "
        "TP/FP/FN/TN uuids, critical GT, AP/APH, CLEAR scores); oracles: last result equals the same operation on a pristine "
        "manager (for tracking: after the same preceding operation), dataset and caller lists untouched, scene score = reference "
        "pooling. non-trivial = a history that re-evaluates a frame or mixes critical filters")
ASSUMPTIONS = [
    "manager state = frame_results + loaded dataset: the search backtracks by popping frame_results after verifying that the "
    "dataset is untouched; a violation is re-executed linearly from a pristine manager before it is reported",
    "pooled AP is compared with the exact-rational reference only when the pooled confidences of a label bucket are pairwise "
    "distinct (each operation salts its confidences; histories repeating an operation are exempt from the value clause)",
]
SALT_KIND = {"perfect": 0, "shifted": 1, "missing": 2, "cars_only": 3, "none": 4, "altframe": 5}
KINDS = ["perfect", "shifted", "missing"]
# a label with ground truth but no estimate at all / no estimate at all / ANOTHER ground-truth frame object carrying the same frame name
# (as an interpolated frame or a second dataset does) with one object less
KINDS_X = ["cars_only", "none", "altframe"]
CRITS = {"wide": dict(max_x_position_list=[50.0, 50.0], max_y_position_list=[50.0, 50.0]),
         # the narrow filter also carries a confidence threshold (the extra estimate of the 'missing' operations, 0.33 + 0.01k, falls below it)
         "narrow": dict(max_x_position_list=[10.0, 10.0], max_y_position_list=[10.0, 10.0], confidence_threshold_list=[0.4, 0.4])}
OPS = [(k, kind, c) for k in range(3) for kind in KINDS for c in ("wide", "narrow")]
N18 = len(OPS)
OPS += [(k, kind, c) for k in range(3) for kind in KINDS_X for c in ("wide", "narrow")]   # indices >= N18: extended alphabet
WORLDS = {"det": ("detection", "base_link"), "trk": ("tracking", "map")}
CFG = {"target_labels": ["car", "pedestrian"], "allow_matching_unknown": True, "max_x_position": 100.0, "max_y_position": 100.0, "min_point_numbers": [0, 0],
       "label_prefix": "autoware", "center_distance_thresholds": [[1.0, 1.0], [0.3, 2.0]], "plane_distance_thresholds": [1.0],
       "iou_2d_thresholds": [0.3], "iou_3d_thresholds": [0.3]}
_W = {}


class Abandon(Exception):
    """the loaded dataset was modified: the rest of this unit's subtree cannot be explored soundly."""


def units(tier, seed):
    depth = 3 if tier == "quick" else 4
    depth_x = 2 if tier == "quick" else 3
    u = []
    # phase 1 (dispatched first): rows of the tracking reference table "result of op b right after op a on a pristine manager",
    # computed in parallel and shared with the exploring workers through the run's scratch directory
    for a in range(len(OPS)):
        u.append(dict(world="trk", kind="prep", row=a))
    for w in WORLDS:
        u.append(dict(world=w, prefix=[], depth=1, nops=len(OPS)))
        for a in range(len(OPS)):
            for b in range(len(OPS)):
                if a < N18 and b < N18:
                    u.append(dict(world=w, prefix=[a, b], depth=depth, nops=N18))        # 18-operation alphabet, full depth
                    if depth_x > 2:
                        u.append(dict(world=w, prefix=[a, b], depth=depth_x, nops=len(OPS), only_extended=True))
                else:
                    u.append(dict(world=w, prefix=[a, b], depth=depth_x, nops=len(OPS)))  # histories touching the extended alphabet
    # tracking: a frame without results for a label (or at all) between two ordinary frames
    plain = [i for i, o in enumerate(OPS) if o[1] in ("perfect", "shifted") and o[2] == "wide"]
    for a in plain:
        for x in range(N18, len(OPS)):
            u.append(dict(world="trk", prefix=[a, x], depth=3, nops=len(OPS), last_ops=plain))
    return u


def bounds(tier, seed):
    d = 3 if tier == "quick" else 4
    return {"operations": "18 (3 frames x {perfect, shifted, missing+extra} x {wide, narrow}) to depth %d; 30 (adds {cars only, no estimates}) to depth %d" % (d, 2 if tier == "quick" else 3),
            "worlds": list(WORLDS)}


# ---------------------------------------------------------------------------------------------------
def _ego(k):
    return (3.0 * k, -1.0 * k, 0.15 * k)


def _dataset(root, world):
    samples = []
    for k in range(3):
        ego = _ego(k) if world == "trk" else (0.0, 0.0, 0.0)

        def gp(x, y, yaw):
            gx, gy, gyaw = geom.ego_to_map(x, y, yaw, ego)
            return (gx, gy, 0.5), gyaw

        anns = []
        for inst, cat, (x, y, yaw), size in (("i0", "car", (5.0 + k, 1.0, 0.2), (2.0, 4.0, 1.5)),
                                             ("i1", "car", (15.0, -4.0 + k, -1.2), (2.0, 4.0, 1.5)),
                                             ("i2", "pedestrian.adult", (8.0, 6.0, 0.0), (0.6, 0.6, 1.7)),
                                             # a false-positive-labelled annotation (a spot where nothing must be reported); the "efp" estimate sits on it
                                             ("i3", "false_positive", (11.0, 3.0 + 0.3 * k, 0.4), (2.0, 4.0, 1.5))):
            p, gyaw = gp(x, y, yaw)
            anns.append(dict(inst=inst, cat=cat, pos=p, yaw=gyaw, size=size, npts=10, vis="full"))
        samples.append(dict(ts=1000000 + 100000 * k, ego=ego, anns=anns))
    t4.write(root, samples, ["car", "pedestrian.adult", "false_positive"])


class World:
    def __init__(self, name):
        task, fid = WORLDS[name]
        d = scratch.new_dir("c13_" + name)
        root = os.path.join(d, "ds")
        _dataset(root, name)
        cfg = dict(CFG, evaluation_task=task)
        with contextlib.redirect_stderr(io.StringIO()), contextlib.redirect_stdout(io.StringIO()):
            self.ec = PerceptionEvaluationConfig([root], fid, os.path.join(d, "res"), cfg)
            self.m = PerceptionEvaluationManager(self.ec)
        self.name = name
        self.tracking = task == "tracking"
        assert len(self.m.ground_truth_frames) == 3 and all(len(f.objects) == 4 for f in self.m.ground_truth_frames)
        self.pristine = [list(f.objects) for f in self.m.ground_truth_frames]
        self.deep = self.deep_snapshot()
        self.fresh1 = {}
        self.fresh2 = {}
        self._configs()

    def _configs(self):
        """ONE critical-filter / pass-fail configuration object per kind, reused by every operation on this manager (what a caller
        that builds its frame configurations once does); a pristine manager gets new ones."""
        self.crit = {c: CriticalObjectFilterConfig(self.ec, ["car", "pedestrian"], **CRITS[c]) for c in CRITS}
        self.crit0 = {c: copy.deepcopy(self.crit[c].filtering_params) for c in CRITS}
        self.pf = PerceptionPassFailConfig(self.ec, ["car", "pedestrian"], matching_threshold_list=[1.0, 1.0])

    def deep_snapshot(self):
        return [[(id(o), o.uuid, o.semantic_label.label, tuple(o.state.position), tuple(o.state.orientation.q), tuple(o.state.size),
                  o.semantic_score, o.pointcloud_num, str(o.frame_id)) for o in objs] for objs in self.pristine]

    def reset(self):
        """a pristine manager: a NEW manager instance on the same configuration (nothing a previous history left behind - frame
        results, caches, modified frames - can survive), with the object snapshots taken again from its freshly loaded frames."""
        with contextlib.redirect_stderr(io.StringIO()), contextlib.redirect_stdout(io.StringIO()):
            self.m = PerceptionEvaluationManager(self.ec)
        self.pristine = [list(f.objects) for f in self.m.ground_truth_frames]
        self.deep = self.deep_snapshot()
        self._configs()

    def dataset_ok(self):
        for f, objs in zip(self.m.ground_truth_frames, self.pristine):
            if len(f.objects) != len(objs) or any(a is not b for a, b in zip(f.objects, objs)):
                return False
        return self.deep_snapshot() == self.deep

    def estimates(self, op):
        k, kind, c = op
        salt = 0.0007 * ("wide", "narrow").index(c)
        out = []
        for j, o in enumerate(self.pristine[k]):
            if j == 3:     # the false-positive-labelled ground truth: an estimate labelled car is reported right on it (every kind but none / cars_only)
                if kind in ("none", "cars_only"):
                    continue
                e = copy.deepcopy(o)
                e.uuid = "efp"
                e.semantic_label = Label(AutowareLabel.CAR, "car", [])
                e.semantic_score = 0.21 + 0.01 * k - 0.0013 * SALT_KIND[kind] - salt
                p = o.state.position
                e.state.position = (p[0] + 0.2, p[1], p[2])
                out.append(e)
                continue
            if kind == "missing" and j == 1:
                continue
            if kind == "none" or (kind == "cars_only" and j == 2) or (kind == "altframe" and j == 1):
                continue
            e = copy.deepcopy(o)
            e.uuid = "e" + o.uuid
            e.semantic_score = 0.9 - 0.07 * j - 0.011 * k - 0.0013 * SALT_KIND[kind] - salt
            if kind == "shifted":
                # a shifted estimate outranks its unshifted counterpart of the same frame by 1e-9: distinct confidences, one exact ranking
                e.semantic_score = 0.9 - 0.07 * j - 0.011 * k - salt + 1e-9
                p = o.state.position
                e.state.position = (p[0] + 0.6, p[1], p[2])
            out.append(e)
        if kind == "missing":
            e = copy.deepcopy(self.pristine[k][0])
            e.uuid = "extra"
            # the extra estimate carries the label unknown (not a target label; the configuration lets it match any ground truth): a
            # pair it forms counts for its ground truth's label, at frame level and in the pooled scene alike
            e.semantic_label = Label(AutowareLabel.UNKNOWN, "unknown", [])
            e.semantic_score = 0.33 + 0.01 * k - salt
            p = e.state.position
            e.state.position = (p[0] + 2.5, p[1] + 2.5, p[2])
            out.append(e)
        return out

    def do(self, op):
        """-> (summary, error string|None)"""
        k, kind, c = op
        f = self.m.ground_truth_frames[k]
        if kind == "altframe":
            from perception_eval.common.dataset import FrameGroundTruth
            f = FrameGroundTruth(f.unix_time, f.frame_name, [o for j, o in enumerate(self.pristine[k]) if j != 1], transforms=[mt for _, mt in f.transforms.items()])
        E = self.estimates(op)
        E0 = list(E)
        snapE = [(e.uuid, tuple(e.state.position), e.semantic_score, e.semantic_label.label) for e in E]
        crit, pf = self.crit[c], self.pf
        r = self.m.add_frame_result(f.unix_time, f, E, crit, pf)
        err = None
        if repr(crit.filtering_params) != repr(self.crit0[c]):
            err = "the caller's critical-filter configuration was modified: %r -> %r" % (self.crit0[c], crit.filtering_params)
        if len(E) != len(E0) or any(a is not b for a, b in zip(E, E0)) or snapE != [(e.uuid, tuple(e.state.position), e.semantic_score, e.semantic_label.label) for e in E]:
            err = "the caller's estimate list was modified"
        return summary(r, self.tracking), err


def summary(r, tracking):
    p = r.pass_fail_result
    s = (tuple(sorted((x.estimated_object.uuid, x.ground_truth_object.uuid if x.ground_truth_object else None) for x in r.object_results)),
         tuple(sorted(x.estimated_object.uuid for x in p.tp_object_results)),
         tuple(sorted(x.estimated_object.uuid for x in p.fp_object_results)),
         tuple(sorted(x.uuid for x in p.fn_objects)), tuple(sorted(x.uuid for x in p.tn_objects)),
         tuple(sorted(o.uuid for o in r.frame_ground_truth.objects)),
         tuple(tuple(round(a.ap, 9) for a in mp.aps) + tuple(round(a.ap, 9) for a in mp.aphs) for mp in r.metrics_score.maps),
         r.metrics_score.num_ground_truth)
    if tracking:
        s += (tuple(tuple((round(c.results["MOTA"], 9), round(c.results["MOTP"], 9), c.results["id_switch"]) for c in ts.clears)
                    for ts in r.metrics_score.tracking_scores),)
    return s


def world(name):
    if name not in _W:
        _W[name] = World(name)
    return _W[name]


# ---------------------------------------------------------------------------------------------------
def _scene_check(W, hist, acc, bad):
    m = W.m
    s1 = m.get_scene_result()
    s2 = m.get_scene_result()
    acc.exec(2)

    def ms(s):
        return (s.num_ground_truth, tuple(tuple(round(a.ap, 9) for a in mp.aps) + tuple(round(a.ap, 9) for a in mp.aphs) for mp in s.maps))

    if ms(s1) != ms(s2):
        bad("scene:query-not-idempotent", "two consecutive get_scene_result() calls differ")
    # (ground truths of the target labels: the false-positive-labelled annotation is not an object to be found)
    tot = sum(1 for fr in m.frame_results for o in fr.frame_ground_truth.objects if o.semantic_label.label in (AutowareLabel.CAR, AutowareLabel.PEDESTRIAN))
    if s1.num_ground_truth != tot:
        bad("scene:gt-count", "scene ground-truth count %d != sum over frames %d" % (s1.num_ground_truth, tot))
    if len(m.frame_results) == 1:
        fr = m.frame_results[0]
        a = tuple(tuple(round(x.ap, 9) for x in mp.aps) for mp in s1.maps)
        b = tuple(tuple(round(x.ap, 9) for x in mp.aps) for mp in fr.metrics_score.maps)
        if a != b:
            bad("scene:one-frame", "one-frame scene AP %s != that frame's AP %s" % (a, b))
    # tracking: the scene CLEAR equals the sum of the per-step CLEARs of consecutive frames (each step scored by the library's own
    # two-frame CLEAR, whose accounting is C05's concern)
    if W.tracking:
        from perception_eval.evaluation.metrics.tracking.clear import CLEAR
        from perception_eval.evaluation.matching.objects_filter import divide_objects
        tl = W.ec.target_labels
        per_frame = [divide_objects(fr.object_results, tl) for fr in m.frame_results]
        for ts in s1.tracking_scores:
            for li, lab in enumerate(tl):
                frames_l = [[]] + [pf[lab] for pf in per_frame]
                tp = fp = sw = 0.0
                sc = 0.0
                for i in range(1, len(frames_l)):
                    c2 = CLEAR([list(frames_l[i - 1]), list(frames_l[i])], 1, [lab], ts.matching_mode, [ts.clears[li].matching_threshold_list[0]])
                    tp, fp, sw, sc = tp + c2.tp, fp + c2.fp, sw + c2.id_switch, sc + c2.tp_matching_score
                    # the frame's own tracking score (computed when the frame was added) is the score of this very step, recomputed here
                    # from the object results the frame holds now
                    for ts_f in m.frame_results[i - 1].metrics_score.tracking_scores:
                        if ts_f.matching_mode == ts.matching_mode and ts_f.clears[li].matching_threshold_list[0] == ts.clears[li].matching_threshold_list[0]:
                            cf = ts_f.clears[li]
                            if (cf.tp, cf.fp, cf.id_switch) != (c2.tp, c2.fp, c2.id_switch):
                                bad("frame:clear-vs-stored-results", "frame #%d label %s mode %s: the frame reported tp=%s fp=%s id_switch=%s, its stored object results (with the "
                                    "previous frame's) score tp=%s fp=%s id_switch=%s" % (i - 1, lab.name, ts.matching_mode.value, cf.tp, cf.fp, cf.id_switch, c2.tp, c2.fp, c2.id_switch))
                c = ts.clears[li]
                acc.compared()
                if (c.tp, c.fp, c.id_switch) != (tp, fp, sw) or abs(c.tp_matching_score - sc) > 1e-9:
                    bad("scene:clear-not-sum-of-steps", "label %s mode %s: scene CLEAR tp=%s fp=%s id_switch=%s score=%.6f, sum over consecutive frame pairs tp=%s fp=%s id_switch=%s score=%.6f" % (
                        lab.name, ts.matching_mode.value, c.tp, c.fp, c.id_switch, c.tp_matching_score, tp, fp, sw, sc))
    # reference pooling --------------------------------------------------------------------------
    labels = W.ec.target_labels
    names = [l.name for l in labels]
    for mp in s1.maps:
        for li, lab in enumerate(labels):
            bucket = []
            gcount = 0
            for fr in m.frame_results:
                gcount += sum(1 for o in fr.frame_ground_truth.objects if o.semantic_label.label == lab)
                for r in fr.object_results:
                    el = r.estimated_object.semantic_label.label
                    gl = r.ground_truth_object.semantic_label.label if r.ground_truth_object is not None else None
                    b = el if el in labels else gl
                    if b == lab:
                        bucket.append(r)
            confs = [r.estimated_object.semantic_score for r in bucket]
            ap_obj = mp.aps[li]
            if ap_obj.num_ground_truth != gcount:
                bad("scene:label-gt-count", "label %s: pooled ground-truth count %d, frames hold %d" % (names[li], ap_obj.num_ground_truth, gcount))
            if ap_obj.objects_results_num != len(bucket):
                bad("scene:pooled-results", "label %s: scene pools %d results, frames hold %d" % (names[li], ap_obj.objects_results_num, len(bucket)))
                continue
            if len(set(confs)) != len(confs):
                acc.skip("tie:confidence")
                continue
            thr = mp.matching_threshold_list[li]
            seq, near = [], False
            for r in sorted(bucket, key=lambda x: -x.estimated_object.semantic_score):
                g = r.ground_truth_object
                if g is None:
                    seq.append(0)
                    continue
                if g.semantic_label.label != lab:
                    seq.append(None)
                    continue
                v = r.get_matching(mp.matching_mode).value
                near = near or abs(v - thr) < 1e-9
                better = v > thr if mp.matching_mode in (MatchingMode.IOU2D, MatchingMode.IOU3D) else v < thr
                ok = better and r.estimated_object.semantic_label.label == lab
                seq.append(1 if ok else 0)
            if near:
                acc.skip("boundary:threshold")
                continue
            want = RAP.ap_from_ranking(seq, gcount)
            acc.compared()
            got = ap_obj.ap
            if (want is None) != (got == float("inf")) or (want is not None and abs(float(want) - got) > 1e-9):
                bad("scene:pooled-ap", "label %s mode %s thr %s: scene AP %r, reference pooled AP %s (ranking %s, G=%d)" % (
                    names[li], mp.matching_mode.value, thr, got, want, seq, gcount))


def _step(W, hist, acc, record_case):
    """execute hist[-1] on the current manager state and check every oracle."""
    op = OPS[hist[-1]]
    case = dict(world=W.name, history=list(hist))

    def bad(sig, msg):
        acc.violation(sig, msg + " | world=%s history=%s" % (W.name, [OPS[i] for i in hist]), case)

    acc.exec()
    got, err = W.do(op)
    acc.case()
    if err:
        bad("caller-list-mutated", err)
    # (a) history independence
    if W.tracking and len(hist) >= 2:
        ref = W.fresh2[(hist[-2], hist[-1])]
    else:
        ref = W.fresh1[hist[-1]]
    acc.compared()
    if got != ref:
        diff = [i for i, (a, b) in enumerate(zip(got, ref)) if a != b]
        bad("history-dependent", "operation %s gives a different result after this history than on a pristine manager (fields %s: %s vs %s)" % (
            op, diff, [got[i] for i in diff][:2], [ref[i] for i in diff][:2]))
    # (b) dataset untouched
    modified = not W.dataset_ok()
    if modified:
        bad("dataset-modified", "the loaded ground-truth frames were modified by add_frame_result")
    # (c) scene pooling
    _scene_check(W, hist, acc, bad)
    ops = [OPS[i] for i in hist]
    revisits = len({o[0] for o in ops}) < len(ops)
    mixes = len({o[2] for o in ops}) > 1
    acc.state((W.name, tuple(summary(fr, W.tracking) for fr in W.m.frame_results)), nontrivial=revisits or mixes)
    acc.outcome((W.name, got[1], got[2], got[3]))
    if record_case and acc.cases % 701 == 1:
        acc.sample(dict(case, ops=[list(o) for o in ops]))
    if modified and record_case:
        raise Abandon()


def _row_path(W, a):
    return os.path.join(scratch.root(), "c13_%s_row%d.pkl" % (W.name, a))


def _compute_row(W, a):
    row = {}
    for b in range(len(OPS)):
        W.reset()
        W.do(OPS[a])
        for f, objs in zip(W.m.ground_truth_frames, W.pristine):  # reference semantics: the dataset does not change
            f.objects = list(objs)
        row[b], _ = W.do(OPS[b])
    W.reset()
    return row


class _Fresh2(dict):
    """lazy view of the reference table; rows come from the phase-1 units (scratch files) or are computed on demand (replay)."""

    def __init__(self, W):
        super().__init__()
        self.W, self.rows, self.wait = W, {}, True

    def __getitem__(self, key):
        a, b = key
        if a not in self.rows:
            import pickle
            import time as _t
            path = _row_path(self.W, a)
            t0 = _t.time()
            while self.wait and not os.path.exists(path) and _t.time() - t0 < 600:
                _t.sleep(0.05)
            if os.path.exists(path):
                with open(path, "rb") as f:
                    self.rows[a] = pickle.load(f)
            else:
                # computed on a SEPARATE manager: the live one is in the middle of a history
                if getattr(self, "ref_world", None) is None:
                    self.ref_world = World(self.W.name)
                self.rows[a] = _compute_row(self.ref_world, a)
        return self.rows[a][b]


def _prepare(W, wait=True):
    if not W.fresh1:
        for i, op in enumerate(OPS):
            W.reset()
            W.fresh1[i], _ = W.do(op)
        if W.tracking:
            W.fresh2 = _Fresh2(W)
        W.reset()
    if W.tracking:
        W.fresh2.wait = wait


def _dfs(W, hist, depth, acc, nops=None, only_extended=False, last_ops=None):
    if len(hist) >= depth:
        return
    for i in (last_ops if last_ops is not None else range(nops or len(OPS))):
        if only_extended and len(hist) == depth - 1 and i < N18 and all(h < N18 for h in hist):
            continue  # pure 18-alphabet histories are covered by the full-depth units
        hist.append(i)
        n = len(W.m.frame_results)
        _step(W, hist, acc, True)
        _dfs(W, hist, depth, acc, nops, only_extended)
        del W.m.frame_results[n:]
        hist.pop()


def run_unit(unit, acc):
    W = world(unit["world"])
    if unit.get("kind") == "prep":
        import pickle
        row = _compute_row(W, unit["row"])
        tmp = _row_path(W, unit["row"]) + ".tmp%d" % os.getpid()
        with open(tmp, "wb") as f:
            pickle.dump(row, f)
        os.replace(tmp, _row_path(W, unit["row"]))
        acc.exec(2 * len(OPS))
        acc.note("reference-rows-prepared")
        acc.state(("prep", unit["row"]))
        return
    _prepare(W, wait=not os.environ.get("VERIF_REPLAY"))
    W.reset()
    try:
        if not unit["prefix"]:
            # depth-1 nodes; each on a pristine manager
            for i in range(len(OPS)):
                W.reset()
                try:
                    _step(W, [i], acc, True)
                except Abandon:
                    acc.note("subtree-abandoned-after-dataset-modification")
            return
        a, b = unit["prefix"]
        W.do(OPS[a])  # replayed prefix (checked by the depth-1 unit)
        if not W.dataset_ok():
            acc.note("subtree-abandoned-after-dataset-modification")
            return
        hist = [a, b]
        if not unit.get("only_extended"):
            _step(W, hist, acc, True)
        else:
            W.do(OPS[b])
        _dfs(W, hist, unit["depth"], acc, unit.get("nops"), unit.get("only_extended", False), unit.get("last_ops"))
    except Abandon:
        acc.note("subtree-abandoned-after-dataset-modification")
    finally:
        W.reset()


def check_case(case, acc):
    """linear replay of one history on a pristine manager; every prefix is checked."""
    W = world(case["world"])
    _prepare(W, wait=False)
    W.reset()
    hist = []
    for i in case["history"]:
        hist.append(i)
        if len(hist) == len(case["history"]):
            _step(W, hist, acc, False)
        else:
            W.do(OPS[i])
            if not W.dataset_ok():
                pass  # keep the damage: this is what a real caller would see
    W.reset()
