"""C19 - analysis tables are a faithful tabulation of the frame results."""
import math
import os

import numpy as np

from perception_eval.common.evaluation_task import EvaluationTask
from perception_eval.evaluation.matching import MatchingLabelPolicy
from perception_eval.evaluation.result.object_result import get_object_results
from perception_eval.evaluation.result.perception_frame_result import get_object_status
from perception_eval.tool import PerceptionAnalyzer3D

from mc.gen import frames as F
from mc.gen import objects as G
from mc.props import _scenes as S
from mc.ref import geom

ID = "C19"
RULE = ("frame results produced by the real evaluate_frame for every scene sub-list pair (<=2 x <=2 of a 6-estimate / 5-ground-truth pool; "
        "thorough: the full 10 x 8 pools) x {ego, map rendering} x 2 label policies x critical filters, tabulated by "
        "PerceptionAnalyzer3D with 1 / 3 / 9 area divisions; multi-frame / multi-scene tables from every window of 3 consecutive scenes "
        "(+1 as a second scene); checked: per-status counts, estimate and ground-truth counts, ego-frame x/y/yaw of every row, errors and "
        "their mean/RMS/max, rates, confusion matrix, label/scene/area/distance selections, get_object_status tallies per scene and over the frames of all scenes at once. state = (frame "
        "kind, areas, policy, per-object status vector); non-trivial = a FP/FN/TN row exists")
ASSUMPTIONS = [
    "known finding K1 (a ground truth matched by a failing estimate is tabulated in the FP pair and again as FN) is recognised by its "
    "exact signature: the ground-truth count excess equals the number of such ground truths; any other discrepancy is a violation",
    "reference poses are the construction (ego-relative) poses; tolerance 1e-6",
]
_SEED = [0]
CRITS = ["box_per_label", "ring"]


def worker_init():
    _SEED[0] = int(os.environ.get("VERIF_SEED", "0") or 0)


def _pools(tier):
    est, gt = S.pools(_SEED[0])
    # C19's own variations of the shared pools: the unknown-labelled estimate sits within the car threshold of gt0 (a TP under
    # ALLOW_UNKNOWN whose estimate and ground-truth labels differ), and the pair est1 / gt1 has headings on the two sides of +-pi
    est, gt = [dict(s_) for s_ in est], [dict(s_) for s_ in gt]
    est[5].update(x=gt[0]["x"] + 0.2, y=gt[0]["y"] + 0.1)
    est[1]["yaw"], gt[1]["yaw"] = 3.05, -3.08
    if tier == "quick":
        return [est[i] for i in (0, 1, 3, 4, 5, 9)], [gt[j] for j in (0, 1, 3, 4, 7)]
    return est, gt


def _scenes(tier):
    est, gt = _pools(tier)
    out = []
    for es in S.sublists(len(est), 2):
        for gs in S.sublists(len(gt), 2):
            out.append(([est[i] for i in es], [gt[j] for j in gs]))
    return out


def units(tier, seed):
    u = []
    for fr in ("base_link", "map"):
        for pol in ("DEFAULT", "ALLOW_UNKNOWN"):
            for nd in (1, 3, 9):
                if tier == "quick" and pol != "DEFAULT" and nd != 1:
                    continue
                for k in range(2 if tier == "quick" else 8):
                    u.append(dict(kind="single", frame=fr, policy=pol, areas=nd, chunk=[k, 2 if tier == "quick" else 8], tier=tier))
    # an analyzer grid (8 m x 4 m half-extents) smaller than the evaluated region: rows outside every area rectangle carry no area
    for fr in ("base_link", "map"):
        for nd in (1, 3, 9):
            u.append(dict(kind="single", frame=fr, policy="DEFAULT", areas=nd, chunk=[0, 4 if tier == "quick" else 1], tier=tier, grid=[8.0, 4.0]))
            # a grid longer in y than in x, with an extra pair on the ego's left between the two half-extents
            if nd != 1:
                u.append(dict(kind="single", frame=fr, policy="DEFAULT", areas=nd, chunk=[1, 4] if tier == "quick" else [0, 1], tier=tier, grid=[4.5, 9.0]))
    for fr in ("base_link", "map"):
        for k in range(4):
            u.append(dict(kind="multi", frame=fr, chunk=[k, 4], tier=tier))
    # one analyzer reused: add(A), read, clear(), add(B)
    for k in range(8):
        u.append(dict(kind="reuse", chunk=[k, 8], tier=tier))
    return u


def bounds(tier, seed):
    return {"scene_pool": "6 x 5" if tier == "quick" else "10 x 8", "sub_list_size": 2, "frames": ["base_link", "map"], "policies": 2, "area_divisions": [1, 3, 9],
            "multi": "windows of 3 consecutive scenes + 1 as second scene, stride 7"}


def run_unit(unit, acc):
    sc = _scenes(unit["tier"])
    k, n = unit["chunk"]
    ego = list(G.ego_menu(_SEED[0])[1])
    if unit["kind"] == "reuse":
        small = sc[:24]
        idx = 0
        for a in small:
            for b in small:
                idx += 1
                if idx % n != k or a is b:
                    continue
                check_case(dict(kind="reuse", frame="base_link", policy="DEFAULT", areas=1, crit="box_per_label", ego=ego,
                                scenes=[[dict(ests=a[0], gts=a[1])], [dict(ests=b[0], gts=b[1])]]), acc)
        return
    if unit["kind"] == "single":
        for i, (es, gs) in enumerate(sc):
            if i % n != k:
                continue
            c = dict(kind="single", frame=unit["frame"], policy=unit["policy"], areas=unit["areas"], crit=CRITS[i % 2], ego=ego, scenes=[[dict(ests=es, gts=gs)]])
            if unit.get("grid"):
                c["grid"] = unit["grid"]
                if unit["grid"][1] > unit["grid"][0]:
                    e0, g0 = _pools(unit["tier"])
                    c["scenes"] = [[dict(ests=list(es) + [dict(e0[0], x=2.2, y=5.4, uuid="eL", score=0.41)] + ([dict(e0[0], x=-2.1, y=-5.2, uuid="eR", score=0.4)] if i % 3 == 0 else []),
                                         gts=list(gs) + [dict(g0[0], x=2.0, y=5.5, uuid="gL")] + ([dict(g0[0], x=-3.0, y=7.5, uuid="gF")] if i % 2 else []))]]
            check_case(c, acc)
    else:
        idx = 0
        for i in range(0, len(sc) - 4, 7):
            idx += 1
            if idx % n != k:
                continue
            frames0 = [dict(ests=sc[i + j][0], gts=sc[i + j][1]) for j in range(3)]
            frames1 = [dict(ests=sc[i + 3][0], gts=sc[i + 3][1])]
            check_case(dict(kind="multi", frame=unit["frame"], policy="DEFAULT", areas=(1, 3, 9)[idx % 3], crit=CRITS[idx % 2], ego=ego,
                            scenes=[frames0, frames1]), acc)


def _wrap(a):
    return (a + math.pi) % (2 * math.pi) - math.pi


def check_case(case, acc):
    acc.case()
    fr_id, ego = case["frame"], tuple(case["ego"])
    gx_, gy_ = case.get("grid", (30.0, 30.0))
    ec = F.eval_config("detection", fr_id, dict(max_x_position=gx_, max_y_position=gy_))

    def bad(sig, msg):
        acc.violation(sig, msg + " | frame=%s policy=%s areas=%s crit=%s" % (fr_id, case["policy"], case["areas"], case["crit"]), case)

    an = PerceptionAnalyzer3D(ec, case["areas"])
    if case["kind"] == "reuse":
        # the table of run B built on an analyzer that already tabulated (and was asked about) run A and was then cleared
        counts = []
        for which, frames in enumerate(case["scenes"]):
            f = frames[0]
            ests = [G.mk3d(dict(s, t=100), fr_id, ego) for s in f["ests"]]
            gts = [G.mk3d(dict(s, t=100), fr_id, ego) for s in f["gts"]]
            res = get_object_results(EvaluationTask.DETECTION, ests, gts, ec.target_labels, MatchingLabelPolicy[case["policy"]], transforms=G.transforms(ego))
            fr = F.evaluate_frame(ec, res, gts, ego, S.CRIT[case["crit"]], S.THR["per_label"], unix_time=100, name="0")
            acc.exec(2)
            an.add([fr])
            p = fr.pass_fail_result
            want = (len(p.tp_object_results), len(p.fp_object_results), len(p.tn_objects), len(p.fn_objects), len(fr.object_results))
            try:
                got = (an.num_tp, an.num_fp, an.num_tn, an.num_fn, an.num_estimation)
            except Exception as ex:  # noqa
                got = repr(ex)
            counts.append((want, got, len(an.df)))
            if which == 0:
                an.clear()
        acc.compared()
        (wa, ga, la), (wb, gb, lb) = counts
        if gb != wb:
            bad("reuse:stale-after-clear", "after add(A), reading the counts, clear() and add(B) the analyzer reports (tp, fp, tn, fn, est) = %s, run B holds %s (run A held %s; %d / %d rows)" % (gb, wb, wa, la, lb))
        acc.state(("reuse", wa, wb, la == lb), nontrivial=la == lb and wa != wb)
        acc.outcome(("reuse", wb))
        return
    all_frames = []       # (scene index, frame result, ests, gts, est specs, gt specs)
    for si, frames in enumerate(case["scenes"]):
        frs = []
        for fi, f in enumerate(frames):
            ests = [G.mk3d(dict(s, t=100 + fi), fr_id, ego) for s in f["ests"]]
            gts = [G.mk3d(dict(s, t=100 + fi), fr_id, ego) for s in f["gts"]]
            res = get_object_results(EvaluationTask.DETECTION, ests, gts, ec.target_labels, MatchingLabelPolicy[case["policy"]], transforms=G.transforms(ego))
            acc.exec()
            fr = F.evaluate_frame(ec, res, gts, ego, S.CRIT[case["crit"]], S.THR["per_label"], unix_time=100 + fi, name=str(fi))
            frs.append(fr)
            all_frames.append((si, fr, ests, gts, f["ests"], f["gts"]))
        acc.exec()
        an.add(frs)
    acc.compared()
    # ---- counts --------------------------------------------------------------------------------
    P = [fr.pass_fail_result for _, fr, *_ in all_frames]
    want = dict(tp=sum(len(p.tp_object_results) for p in P), fp=sum(len(p.fp_object_results) for p in P),
                tn=sum(len(p.tn_objects) for p in P), fn=sum(len(p.fn_objects) for p in P))
    try:
        got = dict(tp=an.num_tp, fp=an.num_fp, tn=an.num_tn, fn=an.num_fn)
        _ = (an.num_estimation, an.num_ground_truth)
    except Exception as ex:  # noqa
        bad("count:raises:" + ("empty-table" if len(an.df) == 0 else "non-empty"), "count properties raise %r (table with %d rows)" % (ex, len(an.df)))
        acc.state((case["kind"], fr_id, case["areas"], "raises"))
        return
    for k in want:
        if want[k] != got[k]:
            bad("count:" + k, "table holds %d %s rows, frame results hold %d" % (got[k], k.upper(), want[k]))
    # the status dispatcher, whole table and per scene, agrees with the pass/fail lists of the frames selected
    for sel_scene in [None] + sorted({si for si, *_ in all_frames}):
        Ps = [fr.pass_fail_result for si, fr, *_ in all_frames if sel_scene is None or si == sel_scene]
        wsel = dict(TP=sum(len(p_.tp_object_results) for p_ in Ps), FP=sum(len(p_.fp_object_results) for p_ in Ps),
                    TN=sum(len(p_.tn_objects) for p_ in Ps), FN=sum(len(p_.fn_objects) for p_ in Ps))
        for st, wv in wsel.items():
            acc.exec()
            try:
                gv_ = an.get_status_num(st, **({} if sel_scene is None else {"scene": sel_scene}))
            except Exception as ex:  # noqa
                bad("status-num:raises", "get_status_num(%r, scene=%r) raised %r" % (st, sel_scene, ex))
                continue
            if gv_ != wv:
                bad("status-num:" + st, "get_status_num(%r%s) = %d, the selected frames hold %d" % (st, "" if sel_scene is None else ", scene=%d" % sel_scene, gv_, wv))
    # the same per label: TP / FP are counted on the estimates' labels, FN / TN on the ground truths' labels
    for lab_name in ("car", "pedestrian", "unknown"):
        wlab = dict(TP=sum(1 for p_ in P for r in p_.tp_object_results if r.estimated_object.semantic_label.name == lab_name),
                    FP=sum(1 for p_ in P for r in p_.fp_object_results if r.estimated_object.semantic_label.name == lab_name),
                    FN=sum(1 for p_ in P for o in p_.fn_objects if o.semantic_label.name == lab_name),
                    TN=sum(1 for p_ in P for o in p_.tn_objects if o.semantic_label.name == lab_name))
        for st, wv in wlab.items():
            acc.exec()
            try:
                gv_ = an.get_status_num(st, label=lab_name)
            except Exception as ex:  # noqa
                bad("status-num:raises", "get_status_num(%r, label=%r) raised %r" % (st, lab_name, ex))
                continue
            if gv_ != wv:
                bad("status-num:label:" + st, "get_status_num(%r, label=%r) = %d, the frames hold %d such %s" % (st, lab_name, gv_, wv, "estimates" if st in ("TP", "FP") else "ground truths"))
    # per-pair yaw errors as the analyzer hands them out by default (no NaN removal): every value lies in [-pi, pi]
    if len(an.df):
        acc.exec()
        try:
            yerr = np.asarray(an.calculate_error("yaw"), dtype=float).ravel()
        except Exception as ex:  # noqa
            yerr = None
            bad("yaw-error:raises", "calculate_error('yaw') raised %r" % (ex,))
        if yerr is not None:
            fin = yerr[~np.isnan(yerr)]
            if len(fin) and (fin.max() > math.pi + 1e-9 or fin.min() < -math.pi - 1e-9):
                bad("yaw-error:range", "calculate_error('yaw') returns %s: values outside [-pi, pi]" % np.round(fin, 4).tolist())
    n_est = sum(len(fr.object_results) for _, fr, *_ in all_frames)
    if an.num_estimation != n_est:
        bad("count:estimation", "table holds %d estimates, %d were evaluated" % (an.num_estimation, n_est))
    n_gt = sum(len(fr.frame_ground_truth.objects) for _, fr, *_ in all_frames)
    D = 0
    for _, fr, *_ in all_frames:
        p = fr.pass_fail_result
        D += sum(1 for g in p.fn_objects if any(r.ground_truth_object is g for r in p.fp_object_results))
    excess = an.num_ground_truth - n_gt
    if excess != 0:
        if excess == D:
            bad("table:gt-in-fp-pair-and-fn", "ground-truth count %d exceeds the %d critical ground truths by exactly the %d ground truths that are matched by a "
                "failing estimate (tabulated in the FP pair and again as FN)" % (an.num_ground_truth, n_gt, D))
        else:
            bad("count:ground-truth", "table holds %d ground truths, frames hold %d critical ground truths (%d of them matched by a failing estimate)" % (
                an.num_ground_truth, n_gt, D))
    # ---- rows: ego-frame poses -------------------------------------------------------------------
    df = an.df
    specs = {}
    for si, fr, ests, gts, es, gs in all_frames:
        for s in es:
            specs[(si, int(fr.frame_name), s["uuid"])] = s
        for s in gs:
            specs[(si, int(fr.frame_name), s["uuid"])] = s
    n_pairs = 0
    if len(df):
        shift = {}
        for side in ("estimation", "ground_truth"):
            rows = df.xs(side, level=1)
            for _, row in rows.iterrows():
                st = row["status"]
                if st is None or (isinstance(st, float) and math.isnan(st)):
                    continue
                s = specs.get((int(row["scene"]), int(row["frame"]), row["uuid"]))
                if s is None:
                    bad("row:foreign", "table row with uuid %r scene %r frame %r does not belong to the tabulated frames" % (row["uuid"], row["scene"], row["frame"]))
                    continue
                if abs(row["x"] - s["x"]) > 1e-6 or abs(row["y"] - s["y"]) > 1e-6 or abs(_wrap(row["yaw"] - s["yaw"])) > 1e-6:
                    bad("row:pose:" + fr_id, "%s row %s holds (x=%.6f, y=%.6f, yaw=%.6f), ego-frame pose is (%.6f, %.6f, %.6f)" % (
                        side, row["uuid"], row["x"], row["y"], row["yaw"], s["x"], s["y"], s["yaw"]))
                if abs(row["distance"] - math.hypot(s["x"], s["y"])) > 1e-6:
                    bad("row:distance", "%s row %s distance %.6f, ego distance %.6f" % (side, row["uuid"], row["distance"], math.hypot(s["x"], s["y"])))
        gdf, edf = an.get_pair_results()
        n_pairs = 0 if gdf is None else len(gdf)
        # ---- errors ------------------------------------------------------------------------------
        if gdf is not None and n_pairs:
            exp = {"x": [], "y": [], "yaw": []}
            for (_, g), (_, e) in zip(gdf.iterrows(), edf.iterrows()):
                if g["status"] not in ("TP", "FP", "TN"):
                    continue
                sg = specs[(int(g["scene"]), int(g["frame"]), g["uuid"])]
                se = specs[(int(e["scene"]), int(e["frame"]), e["uuid"])]
                exp["x"].append(sg["x"] - se["x"])
                exp["y"].append(sg["y"] - se["y"])
                exp["yaw"].append(_wrap(sg["yaw"] - se["yaw"]))
            for col in ("x", "y", "yaw"):
                acc.exec()
                err = np.asarray(an.calculate_error(col), dtype=float)
                w = np.asarray(exp[col], dtype=float)
                if col == "yaw":
                    ok = len(err) == len(w) and all(abs(_wrap(a - b)) < 1e-6 for a, b in zip(err, w)) and all(-math.pi - 1e-9 <= a <= math.pi + 1e-9 for a in err)
                else:
                    ok = len(err) == len(w) and np.allclose(err, w, atol=1e-6)
                if not ok:
                    bad("error:" + col, "errors of column %s are %s, ground-truth-minus-estimate of the paired rows is %s" % (col, err.tolist(), w.tolist()))
            acc.exec()
            summ = an.summarize_error()
            for col in ("x", "y", "yaw"):
                w = np.asarray(exp[col], dtype=float)
                if len(w):
                    r = summ.loc[("ALL", col)]
                    if abs(r["average"] - w.mean()) > 1e-6 or abs(r["rms"] - math.sqrt((w ** 2).mean())) > 1e-6 or abs(r["max"] - np.abs(w).max()) > 1e-6:
                        bad("error-summary:" + col, "summary of %s errors (avg %.6f rms %.6f max %.6f) differs from recomputation (%.6f, %.6f, %.6f)" % (
                            col, r["average"], r["rms"], r["max"], w.mean(), math.sqrt((w ** 2).mean()), np.abs(w).max()))
        # ---- error summaries per label and per selection (scene) ------------------------------------
        pairs_ref = []   # (scene, gt label value, gt spec, est spec) of every TP pair and every FP pair that has a ground truth
        for si, fr, ests, gts, es, gs in all_frames:
            p = fr.pass_fail_result
            for r in list(p.tp_object_results) + [x for x in p.fp_object_results if x.ground_truth_object is not None]:
                pairs_ref.append((si, r.ground_truth_object.semantic_label.label.value, specs[(si, int(fr.frame_name), r.ground_truth_object.uuid)],
                                  specs[(si, int(fr.frame_name), r.estimated_object.uuid)]))
        selections = [None] + ([0, 1] if len(case["scenes"]) > 1 else [])
        for sel in selections:
            acc.exec()
            try:
                errdf = an.analyze(scene=sel).error if sel is not None else an.analyze().error
            except Exception as ex:  # noqa
                bad("analyze:raises", "analyze(scene=%r) raised %r" % (sel, ex))
                continue
            if errdf is None:
                continue
            for lab in ["ALL"] + [l.value for l in ec.target_labels]:
                sub = [(g, e) for s_, gl, g, e in pairs_ref if (sel is None or s_ == sel) and (lab == "ALL" or gl == lab)]
                for col, fn in (("x", lambda g, e: g["x"] - e["x"]), ("y", lambda g, e: g["y"] - e["y"]), ("yaw", lambda g, e: _wrap(g["yaw"] - e["yaw"]))):
                    w = np.asarray([fn(g, e) for g, e in sub], dtype=float)
                    try:
                        r = errdf.loc[(lab, col)]
                    except KeyError:
                        continue
                    if len(w) == 0:
                        if not (isinstance(r["average"], float) and math.isnan(r["average"])):
                            bad("error-summary:selection", "selection scene=%r label=%s column %s: summary %.6f although no paired row matches" % (sel, lab, col, r["average"]))
                        continue
                    if any(isinstance(r[k], float) and math.isnan(r[k]) for k in ("average", "rms", "max")) or abs(r["average"] - w.mean()) > 1e-6 \
                            or abs(r["rms"] - math.sqrt((w ** 2).mean())) > 1e-6 or abs(r["max"] - np.abs(w).max()) > 1e-6:
                        bad("error-summary:selection", "selection scene=%r label=%s column %s: summary (avg %.6f rms %.6f max %.6f) differs from the paired rows of the selection "
                            "(%.6f, %.6f, %.6f)" % (sel, lab, col, r["average"], r["rms"], r["max"], w.mean(), math.sqrt((w ** 2).mean()), np.abs(w).max()))
        # ---- analyze: rates, confusion matrix ------------------------------------------------------
        acc.exec()
        res = an.analyze()
        if res.score is not None:
            v = res.score[["TP", "FP", "TN", "FN"]].values.astype(float)
            if ((v < -1e-12) | (v > 1 + 1e-12)).any():
                bad("rates-out-of-range", "TP/FP/TN/FN rates outside [0,1]: %s" % v.tolist())
        if res.confusion_matrix is not None:
            if int(res.confusion_matrix.values.sum()) != n_pairs:
                bad("confusion-matrix", "confusion matrix sums to %d, %d paired rows" % (int(res.confusion_matrix.values.sum()), n_pairs))
        elif n_pairs:
            bad("confusion-matrix", "no confusion matrix although %d paired rows exist" % n_pairs)
        # ---- selections ----------------------------------------------------------------------------
        def pair_ids(mask_fn):
            out = set()
            for idx, grp in df.groupby(level=0):
                if any(mask_fn(r) for _, r in grp.iterrows()):
                    out.add(idx)
            return out

        sels = [("label", "car", lambda r: r["label"] == "car"), ("scene", 0, lambda r: r["scene"] == 0), ("area", 0, lambda r: r["area"] == 0),
                ("status", "FP", lambda r: r["status"] == "FP")]
        for key, val, fn in sels:
            acc.exec()
            sub = an.get(**{key: val})
            gotids = set(sub.index.get_level_values(0))
            if gotids != pair_ids(fn) or len(sub) != 2 * len(gotids):
                bad("selection:" + key, "selection %s=%r returns row pairs %s, matching pairs are %s" % (key, val, sorted(gotids), sorted(pair_ids(fn))))
        # distance windows: a wide one, and for every pair whose two rows lie at different distances a narrow window strictly between them
        windows = [(5.0, 10.5)]
        for idx, grp in df.groupby(level=0):
            ds = sorted(float(d) for d in grp["distance"].values if d is not None and not (isinstance(d, float) and math.isnan(d)))
            if len(ds) == 2 and ds[1] - ds[0] > 1e-3:
                mid, q = 0.5 * (ds[0] + ds[1]), 0.25 * (ds[1] - ds[0])
                windows.append((mid - q, mid + q))
        for lo, hi in windows[:6]:
            acc.exec()
            sub = an.filter_by_distance((lo, hi))
            wantids = pair_ids(lambda r: r["distance"] is not None and not (isinstance(r["distance"], float) and math.isnan(r["distance"])) and lo <= r["distance"] < hi)
            if set(sub.index.get_level_values(0)) != wantids:
                bad("selection:distance", "distance selection [%s, %s) returns pairs %s, matching pairs are %s" % (lo, hi, sorted(set(sub.index.get_level_values(0))), sorted(wantids)))
        # the area index of every row pair is consistent with the ego-frame position of the object it is derived from (the estimate
        # of a pair, the ground truth of a GT-only row), judged against the analyzer's own area rectangles
        ur, bl = an.upper_rights, an.bottom_lefts
        for idx, grp in df.groupby(level=0):
            e_row, g_row = grp.xs("estimation", level=1).iloc[0], grp.xs("ground_truth", level=1).iloc[0]
            src = e_row if isinstance(e_row["uuid"], str) else g_row
            if not isinstance(src["uuid"], str):
                continue
            sp = specs.get((int(src["scene"]), int(src["frame"]), src["uuid"]))
            if sp is None:
                continue
            inside = [(sp["x"] < ur[a][0]) and (sp["x"] > bl[a][0]) and (sp["y"] > ur[a][1]) and (sp["y"] < bl[a][1]) for a in range(len(ur))]
            want_area = inside.index(True) if any(inside) else None
            got_area = src["area"]
            got_area = None if (got_area is None or (isinstance(got_area, float) and math.isnan(got_area))) else int(got_area)
            # independent of the analyzer's own rectangles: the areas tile the region [-max_x, max_x] x [-max_y, max_y] (thirds along x
            # for 3 areas, along x and y for 9), so a position strictly inside the region and off the dividing lines has an area, and a
            # position outside has none
            lines_x = [] if len(ur) == 1 else [-gx_ / 3.0, gx_ / 3.0]
            lines_y = [] if len(ur) != 9 else [-gy_ / 3.0, gy_ / 3.0]
            off_lines = all(abs(sp["x"] - l_) > 1e-6 for l_ in lines_x + [-gx_, gx_]) and all(abs(sp["y"] - l_) > 1e-6 for l_ in lines_y + [-gy_, gy_])
            if off_lines:
                in_region = abs(sp["x"]) < gx_ and abs(sp["y"]) < gy_
                if in_region != (got_area is not None):
                    bad("area:tiling:" + fr_id, "row %s at ego-frame (%.3f, %.3f) %s the region +-(%s, %s) but is assigned area %r (%d areas)" % (
                        src["uuid"], sp["x"], sp["y"], "lies inside" if in_region else "lies outside", gx_, gy_, got_area, len(ur)))
            if got_area != want_area:
                bad("area:" + fr_id, "row %s at ego-frame (%.3f, %.3f) is assigned to area %r, its position lies in area %r of %d" % (src["uuid"], sp["x"], sp["y"], got_area, want_area, len(ur)))
    # ---- per-object status tallies ---------------------------------------------------------------
    for si in range(len(case["scenes"])):
        frs = [fr for s, fr, *_ in all_frames if s == si]
        acc.exec()
        infos = get_object_status(frs)
        for fr in frs:
            p = fr.pass_fail_result
            fnum = int(fr.frame_name)
            dset = [g for g in p.fn_objects if any(r.ground_truth_object is g for r in p.fp_object_results)]
            for g in fr.frame_ground_truth.objects:
                st = [i for i in infos if i.uuid == g.uuid]
                cnt = sum(i.total_frame_nums.count(fnum) for i in st)
                # the statuses recorded for this ground truth in this frame are exactly those of the frame's pass/fail lists
                if len(st) == 1:
                    want_st = sorted((["TP"] * sum(1 for r in p.tp_object_results if r.ground_truth_object is g)) + (["FP"] * sum(1 for r in p.fp_object_results if r.ground_truth_object is g))
                                     + (["FN"] * sum(1 for o in p.fn_objects if o is g)) + (["TN"] * sum(1 for o in p.tn_objects if o is g)))
                    got_st = sorted((["TP"] * st[0].tp_frame_nums.count(fnum)) + (["FP"] * st[0].fp_frame_nums.count(fnum)) + (["FN"] * st[0].fn_frame_nums.count(fnum))
                                    + (["TN"] * st[0].tn_frame_nums.count(fnum)))
                    if got_st != want_st:
                        bad("status:tally-mismatch", "get_object_status records ground truth %s as %s in frame %d, the frame's pass/fail lists hold it as %s" % (g.uuid, got_st, fnum, want_st))
                if len(st) != 1 or cnt != 1:
                    if len(st) == 1 and cnt == 2 and any(g is d for d in dset) and st[0].fp_frame_nums.count(fnum) == 1 and st[0].fn_frame_nums.count(fnum) == 1:
                        bad("status:gt-in-fp-pair-and-fn", "get_object_status records ground truth %s as FP and FN in frame %d (matched by a failing estimate)" % (g.uuid, fnum))
                    else:
                        bad("status:tally", "get_object_status records ground truth %s %d times in frame %d (%d status objects)" % (g.uuid, cnt, fnum, len(st)))
    if len(case["scenes"]) > 1:
        # the status dispatcher handed the frames of ALL scenes at once (two runs analysed together; frame numbers restart in every scene):
        # each ground truth's total is the number of status entries its frames hold, per status and overall
        frs = [fr for s, fr, *_ in all_frames]
        acc.exec()
        infos = get_object_status(frs)
        for uu in sorted({g.uuid for fr in frs for g in fr.frame_ground_truth.objects}):
            st = [i for i in infos if i.uuid == uu]
            w_ = {"TP": 0, "FP": 0, "FN": 0, "TN": 0}
            for fr in frs:
                p = fr.pass_fail_result
                w_["TP"] += sum(1 for r in p.tp_object_results if r.ground_truth_object is not None and r.ground_truth_object.uuid == uu)
                w_["FP"] += sum(1 for r in p.fp_object_results if r.ground_truth_object is not None and r.ground_truth_object.uuid == uu)
                w_["FN"] += sum(1 for o in p.fn_objects if o.uuid == uu)
                w_["TN"] += sum(1 for o in p.tn_objects if o.uuid == uu)
            g_ = {"TP": sum(len(i.tp_frame_nums) for i in st), "FP": sum(len(i.fp_frame_nums) for i in st), "FN": sum(len(i.fn_frame_nums) for i in st),
                  "TN": sum(len(i.tn_frame_nums) for i in st)}
            tot = sum(len(i.total_frame_nums) for i in st)
            if g_ != w_ or tot != sum(w_.values()) or len(st) > 1:
                bad("status:all-scenes-tally", "get_object_status over the frames of all scenes records ground truth %s as %s with a total of %d (%d status objects); "
                    "the frames' pass/fail lists hold it as %s" % (uu, g_, tot, len(st), w_))
    last = all_frames[-1][1].pass_fail_result
    ev = tuple(sorted((r.estimated_object.uuid, "T") for r in last.tp_object_results) + sorted((r.estimated_object.uuid, "F") for r in last.fp_object_results))
    gv = tuple(sorted(o.uuid for o in last.fn_objects)), tuple(sorted(o.uuid for o in last.tn_objects))
    acc.state((case["kind"], fr_id, case["areas"], case["policy"], case["crit"], ev, gv, len(all_frames)), nontrivial=bool(want["fp"] or want["fn"] or want["tn"]))
    acc.outcome((got["tp"], got["fp"], got["tn"], got["fn"]))
    if acc.cases % 101 == 1:
        acc.sample(case)
