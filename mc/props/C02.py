"""C02 - label-compatible pairs first, then best score (no blocking pair); exact two-stage greedy without ties."""
from mc.props import _matcher as M

ID = "C02"
RULE = ("same finite families as C01 (realised score tables: all strict orders / low-high patterns x label vectors x "
        "policies x radii x tasks; planar 3D pools in four modes; 2D ROI pools); oracle = blocking-pair predicate and, "
        "when no two matchable scores tie, equality with an independent two-stage greedy. state = (layer, mode, policy, "
        "task, radii?, sizes, weak order of matchable scores, compat matrix, matchable mask); non-trivial = >=1 "
        "matchable pair and (a contested ground truth or an unpaired estimate)")
ASSUMPTIONS = [
    "pair scores are the library's own MatchingMethod.value (exactness is C06's concern); compatibility is the "
    "independent policy predicate of mc/ref/labels.py",
    "cases where a score is within 1e-6 of its radius are skipped (boundary); the exact-greedy clause is asserted only "
    "when all matchable scores differ pairwise by > 1e-6",
]
units, bounds = M.units, M.bounds
_SEED = [0]


def worker_init():
    import os
    _SEED[0] = int(os.environ.get("VERIF_SEED", "0") or 0)


def run_unit(unit, acc):
    for case in M.cases_of(unit, _SEED[0]):
        check_case(case, acc)


def check_case(case, acc):
    acc.case()
    ests, gts, tf = M.build(case)
    acc.exec(M.warm_up(case, ests, gts, tf))
    acc.exec()
    try:
        R = M.call(case, ests, gts, tf)
    except Exception as ex:  # noqa  (totality is C01's concern)
        acc.skip("raised:" + type(ex).__name__)
        acc.state(("raise", case["layer"], case["task"], len(ests), len(gts)))
        return
    pairs, err = M.pairing(R, ests, gts)
    if err:
        acc.skip("foreign-object")
        return
    S, Mk, C, boundary = M.analyse(case, ests, gts, tf)
    key = M.class_key(case, S, Mk, C)
    acc.state(key, nontrivial=M.nontrivial(Mk, pairs, len(ests)))
    acc.outcome((case["layer"], case["mode"], tuple(pairs)))
    if boundary:
        acc.skip("boundary:radius")
        return
    acc.compared()
    if acc.cases % 5003 == 1:
        acc.sample(dict(case, observed_pairs=pairs))
    mx = M.MAXIMIZE[case["mode"]]
    P = {i: j for i, j in pairs if j is not None}
    inv = {j: i for i, j in P.items()}
    if len(inv) != len(P):
        acc.skip("not-one-to-one")  # C01's concern
        return
    ne, ng = len(ests), len(gts)

    def bad(sig, msg):
        acc.violation(sig, msg + " | pairs=%s scores=%s matchable=%s compat=%s mode=%s policy=%s task=%s radii=%s" % (
            pairs, [[None if v is None else round(v, 6) for v in r] for r in S], Mk, C, case["mode"], case["policy"], case["task"], case["radii"]), case)

    for i, j in P.items():
        if not Mk[i][j]:
            bad("unmatchable-pair-matched", "pair (%d,%d) is not matchable (frame / radius) but was matched" % (i, j))
            return
    for i in range(ne):
        for j in range(ng):
            if not Mk[i][j] or P.get(i) == j:
                continue
            ok = False
            partners = ([(i, P[i])] if i in P else []) + ([(inv[j], j)] if j in inv else [])
            for a, b in partners:
                if C[i][j]:
                    ok = ok or (C[a][b] and M.better_eq(S[a][b], S[i][j], mx))
                else:
                    ok = ok or C[a][b] or M.better_eq(S[a][b], S[i][j], mx)
            if not ok:
                bad("blocking-pair:" + ("compatible" if C[i][j] else "incompatible"),
                    "matchable %s pair (%d,%d) is left unmatched although neither member has a partner that pre-empts it" % (
                        "compatible" if C[i][j] else "incompatible", i, j))
                return
    flat = sorted(S[i][j] for i in range(ne) for j in range(ng) if Mk[i][j])
    if all(b - a > 1e-6 for a, b in zip(flat, flat[1:])):
        ref = M.ref_greedy(S, Mk, C, mx)
        if ref != P:
            bad("greedy-differs", "tie-free case: documented two-stage greedy gives %s" % (ref,))
    else:
        acc.note("tie-cases")
