"""C14 - label names convert totally, case-insensitively and consistently with merging."""
import os

from perception_eval.common.evaluation_task import EvaluationTask
from perception_eval.common.label import AutowareLabel, LabelConverter, TrafficLightLabel, set_target_lists

from mc.engine import scratch
from mc.ref import labels as ref

ID = "C14"
RULE = ("complete tables: every golden/registered name of both label families x 4 case variants x 9 evaluation "
        "tasks x merge on/off x entry points {convert_label, convert_name, set_target_lists, "
        "PerceptionEvaluationConfig.target_labels}; every enum member's canonical name for every label in the "
        "image of the task's table; a menu of unregistered strings incl. the other family's names. "
        "state = (family, task table, merge, name class, case variant, entry point, outcome); non-trivial = a "
        "registered name that does not map to unknown")
ASSUMPTIONS = [
    "golden tables (mc/ref/labels.py) are transcribed from docs/en/perception/label.md, the canonical enum names "
    "and the alias spellings of the converter's table; names documented but never registered (stale TLR doc rows) "
    "carry no expectation beyond totality",
]
FAMILIES = {"autoware": AutowareLabel, "traffic_light": TrafficLightLabel}
CONFIG_TASKS = {"detection": "base_link", "tracking": "map", "fp_validation": "base_link", "detection2d": "cam_front",
                "tracking2d": "cam_front", "classification2d": "cam_front", "fp_validation2d": "cam_front"}


def _variants(n):
    alt = "".join(c.upper() if i % 2 else c.lower() for i, c in enumerate(n))
    out = []
    for k, s in (("lower", n.lower()), ("upper", n.upper()), ("title", n.title()), ("alternate", alt)):
        if s not in [x[1] for x in out]:
            out.append((k, s))
    return out


def units(tier, seed):
    u = []
    for fam in FAMILIES:
        for task in EvaluationTask:
            for merge in ((False, True) if fam == "autoware" else (False,)):
                u.append({"family": fam, "task": task.value, "merge": merge})
    return u


def bounds(tier, seed):
    return {"families": 2, "tasks": 9, "merge": [False, True], "case_variants": 4,
            "golden_names": {"autoware": len(ref.AUTOWARE), "tlr_classification": len(ref.TLR_CLASSIFICATION),
                             "tlr_other": len(ref.TLR_OTHER)}, "unregistered_menu": len(ref.UNREGISTERED)}


def run_unit(unit, acc):
    fam, task, merge = unit["family"], unit["task"], unit["merge"]
    conv = LabelConverter(task, merge, fam)
    gold = ref.golden(fam, task, merge)
    names = list(gold) + [li.name for li in conv.label_infos if li.name not in gold]
    for n in names:
        for vk, s in _variants(n):
            check_case(dict(unit, kind="name", name=s, base=n, variant=vk), acc)
    # the same configuration dict object handed to two configurations in a row (what a script evaluating two datasets does)
    if task in CONFIG_TASKS:
        for n in names[:12] + names[-6:]:
            check_case(dict(unit, kind="cfg_reuse", name=n), acc)
    # a configuration that does not mention merge_similar_labels behaves like merge_similar_labels=False (the documented default)
    if fam == "autoware" and not merge and task in CONFIG_TASKS:
        for n in names:
            check_case(dict(unit, kind="cfg_default", name=n), acc)
    # target lists with repeated entries, resolved by counting and non-counting converters, directly and through a configuration
    first = next(iter(gold))
    for n in names:
        check_case(dict(unit, kind="repeated", name=n, other=first), acc)
    image = sorted({li.label.name for li in conv.label_infos})
    for member in image:
        check_case(dict(unit, kind="canonical", member=member), acc)
    # a registered name followed / preceded by characters that are not part of it is another string
    decorated = []
    for n in list(gold)[:6] + list(gold)[-3:]:
        decorated += [n + "\x00", n + "\x00\x00", "\x00" + n, n + "\n", n + "\t", n + "\u200b", n.upper() + "\x00"]
    for s_ in decorated:
        check_case(dict(unit, kind="unregistered", name=s_), acc)
    other = ref.golden("traffic_light" if fam == "autoware" else "autoware", task, False)
    for s in ref.UNREGISTERED + sorted(k for k in other if k not in gold and k not in [li.name for li in conv.label_infos]):
        check_case(dict(unit, kind="unregistered", name=s), acc)


_CFG_DIR = [None]


def _config_target_labels(task, fam, merge, name):
    from perception_eval.config import PerceptionEvaluationConfig

    if _CFG_DIR[0] is None:
        _CFG_DIR[0] = scratch.new_dir("c14cfg")
    cfg = {"evaluation_task": task, "target_labels": [name], "label_prefix": fam, "merge_similar_labels": merge,
           "center_distance_thresholds": [1.0], "iou_2d_thresholds": [0.5]}
    if task in ("detection", "tracking", "fp_validation"):
        cfg.update(max_x_position=10.0, max_y_position=10.0, min_point_numbers=[0], plane_distance_thresholds=[1.0],
                   iou_3d_thresholds=[0.5])
    ec = PerceptionEvaluationConfig(["/nonexistent"], CONFIG_TASKS[task], os.path.join(_CFG_DIR[0], "r"), cfg)
    return ec


def _entries(conv, task, fam, merge, s, acc):
    """-> dict entry point -> member name or ('exc', type)."""
    out = {}

    def run(k, f):
        acc.exec()
        try:
            out[k] = f().name
        except Exception as ex:  # noqa
            out[k] = "EXC:" + type(ex).__name__

    run("convert_label", lambda: conv.convert_label(s).label)

    def with_attrs():
        lab = conv.convert_label(s, ["a.b", "c"])
        if list(lab.attributes) != ["a.b", "c"] or lab.name != s:
            raise AssertionError("attributes/name not carried: %r %r" % (lab.attributes, lab.name))
        return lab.label
    run("convert_label+attrs", with_attrs)
    run("convert_name", lambda: conv.convert_name(s))
    run("set_target_lists", lambda: set_target_lists(["car" if fam == "autoware" else "unknown", s], conv)[1])
    if task in CONFIG_TASKS:
        def viaconfig():
            ec = _config_target_labels(task, fam, merge, s)
            assert len(ec.target_labels) == 1
            got = ec.label_converter.convert_label(s).label
            if got is not ec.target_labels[0]:
                raise AssertionError("config target label %s != object label %s" % (ec.target_labels[0], got))
            return ec.target_labels[0]
        run("config.target_labels", viaconfig)

        def viaframeconfigs():
            # the frame-level configurations resolve their own target lists with the evaluator's settings (merge flag included)
            from perception_eval.evaluation.result.perception_frame_config import CriticalObjectFilterConfig, PerceptionPassFailConfig
            ec = _config_target_labels(task, fam, merge, s)
            kw = dict(max_x_position_list=[10.0], max_y_position_list=[10.0]) if task in ("detection", "tracking", "fp_validation") else {}
            a = CriticalObjectFilterConfig(ec, [s], **kw).target_labels
            b = PerceptionPassFailConfig(ec, [s]).target_labels
            if len(a) != 1 or len(b) != 1 or a[0] is not b[0]:
                raise AssertionError("frame configs disagree: %s / %s" % (a, b))
            return a[0]
        run("frame_config.target_labels", viaframeconfigs)
    # a counting converter (what configurations build) that meets the name first in another letter case keeps converting it
    def counting_sequence():
        cc = LabelConverter(task, merge, fam, True)
        first = cc.convert_label(s.upper()).label
        again = cc.convert_label(s.lower()).label
        third = cc.convert_name(s)
        if not (first is again is third):
            raise AssertionError("%s then %s then %s" % (first, again, third))
        return again
    run("counting:upper-then-lower", counting_sequence)
    return out


def check_case(case, acc):
    acc.case()
    fam, task, merge = case["family"], case["task"], case["merge"]
    if fam == "autoware":
        # converters of the other merge setting created before and after must not influence this one
        LabelConverter(task, not merge, fam)
    conv = LabelConverter(task, merge, fam)
    if fam == "autoware":
        LabelConverter(task, not merge, fam)
    L = FAMILIES[fam]
    gold = ref.golden(fam, task, merge)
    tbl = "cls" if (fam == "traffic_light" and task == "classification2d") else ("other" if fam == "traffic_light" else "aw")
    if case["kind"] == "cfg_reuse":
        import copy as _copy
        from perception_eval.config import PerceptionEvaluationConfig
        s = case["name"]
        if _CFG_DIR[0] is None:
            _CFG_DIR[0] = scratch.new_dir("c14cfg")
        cfg = {"evaluation_task": task, "target_labels": [s], "label_prefix": fam, "merge_similar_labels": merge, "allow_matching_unknown": True,
               "center_distance_thresholds": [1.0], "iou_2d_thresholds": [0.5]}
        if task in ("detection", "tracking", "fp_validation"):
            cfg.update(max_x_position=10.0, max_y_position=10.0, min_point_numbers=[0], plane_distance_thresholds=[1.0], iou_3d_thresholds=[0.5])
        before = _copy.deepcopy(cfg)
        acc.exec(2)
        try:
            ecs = [PerceptionEvaluationConfig(["/nonexistent"], CONFIG_TASKS[task], os.path.join(_CFG_DIR[0], "r%d" % i_), cfg) for i_ in range(2)]
            got = [(e.target_labels[0].name, e.label_converter.convert_label(s).label.name, e.label_params["merge_similar_labels"], e.label_params["matching_label_policy"].name) for e in ecs]
        except Exception as ex:  # noqa
            got = ["EXC:" + repr(ex)]
        acc.compared()
        want = conv.convert_label(s).label.name
        acc.state((fam, tbl, merge, "cfg_reuse", want, len(set(map(str, got))) == 1), nontrivial=merge)
        acc.outcome((fam, "cfg_reuse", want))
        if cfg != before:
            acc.violation("config:caller-dict-modified", "constructing a configuration changed the caller's dict: %s -> %s" % (
                {k_: v_ for k_, v_ in before.items() if cfg.get(k_, "<missing>") != v_}, {k_: cfg.get(k_, "<missing>") for k_ in before if cfg.get(k_, "<missing>") != before[k_]}), case)
        if len(got) != 2 or got[0] != got[1] or got[0][:2] != (want, want):
            acc.violation("config:second-use-differs", "two configurations built from one dict resolve %r as %s, the table gives %s" % (s, got, want), case)
    elif case["kind"] == "cfg_default":
        from perception_eval.config import PerceptionEvaluationConfig
        s = case["name"]
        if _CFG_DIR[0] is None:
            _CFG_DIR[0] = scratch.new_dir("c14cfg")
        cfg = {"evaluation_task": task, "target_labels": [s], "label_prefix": fam, "center_distance_thresholds": [1.0], "iou_2d_thresholds": [0.5]}
        if task in ("detection", "tracking", "fp_validation"):
            cfg.update(max_x_position=10.0, max_y_position=10.0, min_point_numbers=[0], plane_distance_thresholds=[1.0], iou_3d_thresholds=[0.5])
        acc.exec()
        try:
            ec = PerceptionEvaluationConfig(["/nonexistent"], CONFIG_TASKS[task], os.path.join(_CFG_DIR[0], "r"), cfg)
            got = (ec.target_labels[0].name, ec.label_converter.convert_label(s).label.name)
        except Exception as ex:  # noqa
            got = ("EXC:" + type(ex).__name__,) * 2
        want = conv.convert_label(s).label.name      # conv: merge_similar_labels=False
        acc.compared()
        acc.state((fam, tbl, "cfg_default", want, got == (want, want)), nontrivial=want in ("TRUCK", "BUS", "MOTORBIKE"))
        acc.outcome((fam, "cfg_default", want))
        if got != (want, want):
            acc.violation("config:merge-default", "a configuration without the key merge_similar_labels resolves %r to target label %s / object label %s, the unmerged "
                          "table gives %s (task=%s)" % (s, got[0], got[1], want, task), case)
    elif case["kind"] == "repeated":
        s, other = case["name"], case["other"]
        for counting in (False, True):
            for names_ in ([s, s], [s, other, s], [other, s, s, other], [s, s.upper(), s]):
                cv = LabelConverter(task, merge, fam, counting)
                acc.exec()
                try:
                    got = [x.name for x in set_target_lists(list(names_), cv)]
                    want = [LabelConverter(task, merge, fam).convert_name(x).name for x in names_]
                except Exception as ex:  # noqa
                    acc.violation("repeated:raises", "set_target_lists(%r) raised %r" % (names_, ex), case)
                    continue
                acc.compared()
                acc.state((fam, tbl, merge, "repeated", counting, len(names_), got == want), nontrivial=True)
                if got != want:
                    acc.violation("target-list:not-entrywise", "set_target_lists(%r) with count_label_number=%s -> %s, entry by entry the names convert to %s "
                                  "(family=%s task=%s merge=%s)" % (names_, counting, got, want, fam, task, merge), case)
        if task in CONFIG_TASKS:
            from perception_eval.config import PerceptionEvaluationConfig
            if _CFG_DIR[0] is None:
                _CFG_DIR[0] = scratch.new_dir("c14cfg")
            cfg = {"evaluation_task": task, "target_labels": [s, other, s], "label_prefix": fam, "merge_similar_labels": merge,
                   "center_distance_thresholds": [[1.0, 2.0, 3.0]], "iou_2d_thresholds": [0.5]}
            if task in ("detection", "tracking", "fp_validation"):
                cfg.update(max_x_position=[10.0, 20.0, 30.0], max_y_position=10.0, min_point_numbers=[0, 1, 2], plane_distance_thresholds=[1.0], iou_3d_thresholds=[0.5])
            acc.exec()
            try:
                ec = PerceptionEvaluationConfig(["/nonexistent"], CONFIG_TASKS[task], os.path.join(_CFG_DIR[0], "r"), cfg)
                got = [x.name for x in ec.target_labels]
                want = [LabelConverter(task, merge, fam).convert_name(x).name for x in (s, other, s)]
                if got != want or [x.name for x in ec.metrics_config.target_labels] != want:
                    acc.violation("config:target-list:not-entrywise", "configuration target_labels=%r resolves to %s (metrics: %s), entry by entry %s" % (
                        [s, other, s], got, [x.name for x in ec.metrics_config.target_labels], want), case)
            except Exception as ex:  # noqa
                acc.violation("config:repeated:raises", "a configuration with target_labels=%r raised %r" % ([s, other, s], ex), case)
            acc.compared()
        acc.outcome((fam, tbl, merge, "repeated"))
    elif case["kind"] == "name":
        s, base = case["name"], case["base"]
        want = gold.get(base)
        got = _entries(conv, task, fam, merge, s, acc)
        acc.compared(len(got))
        for ep, g in got.items():
            ok = True
            if g.startswith("EXC:"):
                ok = False
                acc.violation("total:%s" % ep, "%s(%r) raised %s for family=%s task=%s merge=%s" % (ep, s, g, fam, task, merge), case)
            elif want is not None and g != want:
                ok = False
                acc.violation("golden:%s:%s" % (fam, base), "%s(%r) -> %s, documented label is %s (family=%s task=%s merge=%s)" % (
                    ep, s, g, want, fam, task, merge), case)
            acc.state((fam, tbl, merge, want, case["variant"], ep, ok), nontrivial=want not in (None, "UNKNOWN"))
        acc.outcome((fam, tbl, merge, want))
        # merge consistency: merged result == merge image of unmerged result
        if fam == "autoware" and merge:
            acc.exec()
            un = LabelConverter(task, False, fam).convert_label(s).label.name
            mg = got["convert_label"]
            if ref.MERGE.get(un, un) != mg:
                acc.violation("merge-law:%s" % base, "merge image of %s is %s but merged converter gives %s for %r" % (
                    un, ref.MERGE.get(un, un), mg, s), case)
    elif case["kind"] == "canonical":
        m = L[case["member"]]
        for vk, s in _variants(m.value):
            got = _entries(conv, task, fam, merge, s, acc)
            acc.compared(len(got))
            for ep, g in got.items():
                ok = g == m.name
                acc.state((fam, tbl, merge, "canonical", vk, ep, ok), nontrivial=True)
                if not ok:
                    acc.violation("canonical:%s:%s" % (fam, m.name), "label %s is produced by the %s/%s table but its canonical name %r "
                                  "converts to %s via %s" % (m.name, fam, task, s, g, ep), case)
        acc.outcome((fam, tbl, merge, "canonical", m.name))
    else:
        s = case["name"]
        got = _entries(conv, task, fam, merge, s, acc)
        acc.compared(len(got))
        for ep, g in got.items():
            ok = g == "UNKNOWN"
            acc.state((fam, tbl, merge, "unregistered", ep, ok))
            if not ok:
                acc.violation("unregistered:%s" % ep, "unregistered name %r -> %s via %s (family=%s task=%s), expected UNKNOWN" % (
                    s, g, ep, fam, task), case)
        acc.outcome((fam, "unregistered"))
    if acc.cases % 211 == 1:
        acc.sample(case)
