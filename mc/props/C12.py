"""C12 - sensing counts exactly the points inside each box; every object classified once."""
import contextlib
import io
import itertools
import math
import os

import numpy as np

from perception_eval.common.point import crop_pointcloud
from perception_eval.config import SensingEvaluationConfig
from perception_eval.evaluation.sensing.sensing_frame_config import SensingFrameConfig
from perception_eval.evaluation.sensing.sensing_frame_result import SensingFrameResult
from perception_eval.manager import SensingEvaluationManager

from mc.engine import scratch
from mc.gen import objects as G
from mc.gen import t4
from mc.ref import geom

ID = "C12"
RULE = ("(crop) boxes: 5 positions x 10 yaws x 3 sizes x scales {0.8, 1, 1.3}; cloud = 10^3 lattice in the box's local frame at relative "
        "coordinates {+-0.2, +-0.45, +-0.55, +-0.9, +-1.4}^3 (every point >= 5% of a half-size from a face) mapped to the ego frame, "
        "with and without an intensity column, plus the empty cloud and a 10^5-point lattice; (frame) every sub-set (<= 3) of 4 boxes (one of them 150 m away) x "
        "visibility {FULL, NONE, unset} each x (scale at 0 m, scale at 100 m, min points) menu x 5 polygonal non-detection prisms "
        "(triangle, rectangle CW and CCW, pentagon, L-shape) on a 5.5k-point lattice through SensingFrameResult.evaluate_frame; "
        "(overlap) 3 scenes of annotated boxes overlapping in 3-D (rider on motorcycle, pedestrian touching a car, duplicate annotation) in every list order x 3 scale laws x min points {1, 4}; "
        "(manager) SensingEvaluationManager on generated datasets incl. loader-provided visibility. state = (layer, size, scale, yaw "
        "class, inside count) / (visibility vector, outcome classes); non-trivial = some but not all points inside / a mix of outcomes")
ASSUMPTIONS = [
    "reference: oriented-box test with scaled footprint and unscaled height, even-odd polygon test (mc/ref/geom.py); lattice points closer "
    "than 1e-9 to a face or polygon edge are not generated (checked, counted as skipped otherwise)",
]
REL = [-1.4, -0.9, -0.55, -0.45, -0.2, 0.2, 0.45, 0.55, 0.9, 1.4]
SIZES = [(2.0, 4.0, 1.5), (0.6, 0.6, 1.7), (2.5, 12.0, 3.2)]
POSN = [(5.013, 1.029), (-7.0, 3.5), (0.4, -0.3), (30.0, -20.0), (12.0, 12.0)]
SCALES = [0.8, 1.0, 1.3]
_SEED = [0]
_M = {}


def worker_init():
    _SEED[0] = int(os.environ.get("VERIF_SEED", "0") or 0)


def units(tier, seed):
    u = []
    for pi in range(len(POSN)):
        for si in range(len(SIZES)):
            u.append(dict(layer="crop", pos=pi, size=si, ny=10 if tier == "quick" else 20))
    u.append(dict(layer="crop_big"))
    for k in range(8):
        u.append(dict(layer="frame", chunk=[k, 8]))
    u.append(dict(layer="manager"))
    u.append(dict(layer="prism"))
    u.append(dict(layer="elevated"))
    u.append(dict(layer="mixed"))
    u.append(dict(layer="beside"))
    u.append(dict(layer="overlap"))
    return u


def bounds(tier, seed):
    return {"positions": len(POSN), "yaws": 10 if tier == "quick" else 20, "sizes": len(SIZES), "scales": SCALES, "lattice": "10^3 relative points",
            "frame_boxes": 3, "visibility": ["FULL", "NONE", None], "prisms": 5, "frame_cloud_points": 5460}


def _box_spec(pos, yaw, size, z=0.7, vis=None, uuid="g"):
    return dict(x=pos[0], y=pos[1], z=z, yaw=yaw, size=list(size), label="CAR", uuid=uuid, vis=vis)


def _lattice(spec, intensity):
    w, l, h = spec["size"]
    pts = []
    for a, b, c in itertools.product(REL, REL, REL):
        dx, dy = geom.rot2(a * l / 2, b * w / 2, spec["yaw"])
        row = [spec["x"] + dx, spec["y"] + dy, spec["z"] + c * h / 2]
        if intensity:
            row.append(0.5)
        pts.append(row)
    return np.array(pts), [(a, b, c) for a, b, c in itertools.product(REL, REL, REL)]


def run_unit(unit, acc):
    if unit["layer"] == "crop":
        jx = G.jitter(_SEED[0])[0]
        for k in range(unit["ny"]):
            yaw = geom.wrap(k * 2 * math.pi / unit["ny"] + 0.07 + jx)
            for sc in SCALES:
                for inten in (False, True):
                    check_case(dict(layer="crop", pos=list(POSN[unit["pos"]]), yaw=yaw, size=list(SIZES[unit["size"]]), scale=sc, intensity=inten), acc)
    elif unit["layer"] == "crop_big":
        check_case(dict(layer="crop_big", pos=[5.013, 1.029], yaw=0.4, size=[2.0, 4.0, 1.5], scale=1.0), acc)
        check_case(dict(layer="crop_empty", pos=[5.013, 1.029], yaw=0.4, size=[2.0, 4.0, 1.5], scale=1.0), acc)
    elif unit["layer"] == "frame":
        k, n = unit["chunk"]
        idx = 0
        for sel in [s for r in range(0, 4) for s in itertools.combinations(range(4), r)]:
            for viss in itertools.product(("FULL", "NONE", None), repeat=len(sel)):
                for s0, s100, minp in [(1.0, 1.0, 1), (1.3, 1.3, 3), (1.0, 1.5, 1), (0.8, 0.8, 200), (1.2, 0.9, 2)]:
                    idx += 1
                    if idx % n != k:
                        continue
                    check_case(dict(layer="frame", sel=list(sel), vis=list(viss), s0=s0, s100=s100, minp=minp), acc)
    elif unit["layer"] == "elevated":
        # objects far above / below the sensor origin (overhead sign, object on a bridge): 3-D distance differs from the planar one
        for zc in (12.0, -9.0, 25.0):
            for s0, s100 in ((1.0, 3.0), (1.0, 1.0), (2.0, 0.5), (1.0, 6.0)):
                for minp in (1, 40):
                    check_case(dict(layer="elevated", zc=zc, s0=s0, s100=s100, minp=minp), acc)
    elif unit["layer"] == "beside":
        # a non-detection area that begins 0.2 m beside an annotated object: the object's box scaled by 1.5 reaches into the area although its
        # annotated footprint does not (manager.crop_pointcloud, and add_frame_result with that object filtered out by uuid)
        for bi in range(3):
            for side in ("left", "right", "front"):
                for sc in (1.5, 1.0, 2.0):
                    check_case(dict(layer="beside", box=bi, side=side, scale=sc), acc)
    elif unit["layer"] == "mixed":
        # a small object whose centre is nearer than the centre of a much larger one that reaches further towards the sensor, with all
        # points closer than both centres
        for sc_i in range(len(MIXED)):
            for s0, s100 in ((1.0, 1.0), (1.0, 1.5), (1.3, 0.8)):
                for order in (0, 1):
                    check_case(dict(layer="mixed", scene=sc_i, s0=s0, s100=s100, minp=1, order=order), acc)
    elif unit["layer"] == "overlap":
        # annotated boxes that overlap in 3-D (a rider on a motorcycle, a pedestrian touching a car, a duplicate annotation): a point in the
        # intersection is inside EVERY box containing it, whatever the order of the ground-truth list
        for sc_i in range(len(OVERLAP)):
            for s0, s100 in ((1.0, 1.0), (1.3, 1.3), (0.8, 2.0)):
                for minp in (1, 4):
                    for order in itertools.permutations(range(len(OVERLAP[sc_i]))):
                        check_case(dict(layer="overlap", scene=sc_i, s0=s0, s100=s100, minp=minp, order=list(order)), acc)
    elif unit["layer"] == "prism":
        for pi in range(len(POLYS)):
            for rev in (False, True):
                for zr in ((-1.0, 2.0), (0.5, 3.5)):
                    check_case(dict(layer="prism", poly=pi, reversed=rev, z=list(zr)), acc)
                    # the upper plane lists the same polygon starting at another corner
                    for sh in (1, 2):
                        check_case(dict(layer="prism", poly=pi, reversed=rev, z=list(zr), shift=sh), acc)
    else:
        for style in ("t4", "nusc"):
            for s0, s100, minp in [(1.0, 1.0, 1), (1.0, 1.5, 3)]:
                for tu in (None, ["i1"], ["i0", "i2"], ["nobody"]):
                    for where in ("config", "frame"):
                        if tu is None and where == "frame":
                            continue
                        check_case(dict(layer="manager", style=style, s0=s0, s100=s100, minp=minp, target_uuids=tu, where=where), acc)


MIXED = [
    [(16.0, 0.0, 0.0, (2.5, 16.0, 3.0)), (12.0, 5.0, 0.3, (0.6, 0.6, 1.7))],
    [(0.0, 20.0, 1.5707963, (2.5, 24.0, 3.0)), (-6.0, 11.0, 0.0, (1.0, 1.0, 1.0)), (5.0, 13.5, 0.5, (0.6, 0.6, 1.7))],
    [(-14.0, -14.0, 0.7853981, (3.0, 30.0, 3.0)), (-9.5, -2.0, 0.2, (2.0, 4.0, 1.5))],
]


def _rows(a):
    return sorted(tuple(np.round(r, 9)) for r in a)


FRAME_BOXES = [(5.013, 1.029, 0.4, (2.0, 4.0, 1.5)), (12.0, -6.0, -1.1, (1.0, 1.0, 1.0)), (40.0, 30.0, 2.0, (2.0, 4.0, 1.5)),
               (120.0, 90.0, 0.7, (2.0, 4.0, 1.5))]   # the last one is 150 m away (beyond the 100 m anchor of the scale line)
POLYS = [[(0, -10), (20, -10), (20, 10), (0, 10)], [(0, 10), (20, 10), (20, -10), (0, -10)], [(0, 0), (30, -12), (30, 12)],
         [(0, -8), (16, -8), (16, 0), (8, 0), (8, 8), (0, 8)], [(2, -9), (14, -11), (22, 0), (13, 9), (3, 7)]]
_PC = [None]


def _frame_cloud():
    if _PC[0] is None:
        xs = np.arange(-2.05, 45, 1.37)
        ys = np.arange(-12.03, 35, 1.21)
        zs = [-3.0, 0.27, 0.9, 4.0]
        near = [(x, y, z, 1.0) for x in xs for y in ys for z in zs]
        fx, fy, fyaw, (fw, fl, fh) = FRAME_BOXES[3]
        far = []
        for a in REL:
            for b in REL:
                dx, dy = geom.rot2(a * fl / 2 * 1.37, b * fw / 2 * 1.37, fyaw)
                far.append((fx + dx, fy + dy, 0.9, 1.0))
        _PC[0] = np.array(near + far)
    return _PC[0]


# vectorised reference (own formulas, numpy only): oriented-box test with scaled footprint / unscaled height, even-odd polygon test
_CACHE = {}
_EPC = {}


def _box_mask(PC, b, sc, zc):
    key = ("box", id(PC), b[:3], tuple(b[3]), round(sc, 12), zc)
    if key not in _CACHE:
        x, y, yaw, (w, l, h) = b
        c, s_ = math.cos(-yaw), math.sin(-yaw)
        dx, dy = PC[:, 0] - x, PC[:, 1] - y
        u, v = c * dx - s_ * dy, s_ * dx + c * dy
        mu, mv, mz = sc * l / 2 - np.abs(u), sc * w / 2 - np.abs(v), h / 2 - np.abs(PC[:, 2] - zc)
        inside = (mu > 0) & (mv > 0) & (mz >= 0)
        margin = np.minimum(np.minimum(np.abs(mu), np.abs(mv)), np.abs(mz))
        _CACHE[key] = (inside, margin)
    return _CACHE[key]


def _poly_mask(PC, poly):
    key = ("poly", id(PC), tuple(poly))
    if key not in _CACHE:
        px, py = PC[:, 0], PC[:, 1]
        inside = np.zeros(len(PC), dtype=bool)
        dist = np.full(len(PC), np.inf)
        n = len(poly)
        for i in range(n):
            (x1, y1), (x2, y2) = poly[i], poly[(i + 1) % n]
            if y1 != y2:
                cond = ((y1 > py) != (y2 > py)) & (px < (x2 - x1) * (py - y1) / (y2 - y1) + x1)
                inside ^= cond
            ex, ey = x2 - x1, y2 - y1
            t = np.clip(((px - x1) * ex + (py - y1) * ey) / (ex * ex + ey * ey), 0.0, 1.0)
            dist = np.minimum(dist, np.hypot(px - x1 - t * ex, py - y1 - t * ey))
        _CACHE[key] = (inside, dist)
    return _CACHE[key]


def _in_box(p, b, sc, z=0.7):
    x, y, yaw, (w, l, h) = b
    ins, margin = geom.point_in_box(p[0], p[1], x, y, yaw, w, l, sc)
    zin = abs(p[2] - z) <= h / 2
    return ins and zin, min(abs(margin), abs(abs(p[2] - z) - h / 2))


def _edge_dist(p, poly):
    d = float("inf")
    for i in range(len(poly)):
        (x1, y1), (x2, y2) = poly[i], poly[(i + 1) % len(poly)]
        ex, ey = x2 - x1, y2 - y1
        t = max(0.0, min(1.0, ((p[0] - x1) * ex + (p[1] - y1) * ey) / (ex * ex + ey * ey)))
        d = min(d, math.hypot(p[0] - x1 - t * ex, p[1] - y1 - t * ey))
    return d


OVERLAP = [
    [(8.0, 2.0, 0.3, (0.8, 2.2, 1.4)), (8.0, 2.0, 0.3, (0.6, 0.6, 1.8))],                                      # rider inside the motorcycle's footprint, taller
    [(-6.0, 9.0, -0.8, (2.0, 4.5, 1.5)), (-5.2, 10.1, 0.4, (0.7, 0.7, 1.7))],                                   # pedestrian partly inside a car's box
    [(15.0, -4.0, 1.2, (2.0, 4.0, 1.5)), (15.0, -4.0, 1.2, (2.0, 4.0, 1.5)), (15.5, -3.0, 0.2, (1.0, 1.0, 1.0))],  # duplicate annotation + a third box overlapping both
]


def _check_frame_result(case, fr, gts, boxes, zc, s0, s100, minp, PC, polys, zr, acc, bad, extra_boxes=()):
    """extra_boxes: annotated objects of the frame that are not evaluated (uuid filter); their boxes still clear non-detection points."""
    allr = fr.detection_success_results + fr.detection_fail_results + fr.detection_warning_results
    if sorted(id(r.ground_truth_object) for r in allr) != sorted(id(g) for g in gts):
        bad("classified-not-once", "every ground truth must be reported exactly once as success / fail / warning: got %d results for %d objects" % (len(allr), len(gts)))
    scales = []
    outcome = []
    any_box = np.zeros(len(PC), dtype=bool)
    for g, b in zip(gts, boxes):
        sc = s0 + 0.01 * (s100 - s0) * math.sqrt(b[0] ** 2 + b[1] ** 2 + zc ** 2)
        scales.append(sc)
        inside, margin = _box_mask(PC, b, sc, zc)
        any_box |= inside
        rs = [r for r in allr if r.ground_truth_object is g]
        if len(rs) != 1:
            continue
        r = rs[0]
        if (margin < 1e-9).any():
            acc.skip("boundary:box-face")
            continue
        cnt = int(inside.sum())
        if cnt != r.inside_pointcloud_num:
            bad("inside-count", "object %s: %d points reported inside, %d geometrically inside (scale %.4f)" % (g.uuid, r.inside_pointcloud_num, cnt, sc))
        want = "warn" if (g.visibility is not None and str(getattr(g.visibility, "value", g.visibility)) == "none") else ("ok" if cnt >= minp else "fail")
        got = "warn" if any(r is x for x in fr.detection_warning_results) else ("ok" if any(r is x for x in fr.detection_success_results) else "fail")
        outcome.append(got)
        if want != got:
            bad("classification", "object %s (visibility %s, %d points inside, threshold %d) reported as %s, expected %s" % (g.uuid, g.visibility, cnt, minp, got, want))
    for b in extra_boxes:
        sc = s0 + 0.01 * (s100 - s0) * math.sqrt(b[0] ** 2 + b[1] ** 2 + zc ** 2)
        inside, margin = _box_mask(PC, b, sc, zc)
        any_box |= inside
    k = 0
    zin = (PC[:, 2] >= zr[0]) & (PC[:, 2] <= zr[1])
    for poly in polys:
        pin, pdist = _poly_mask(PC, poly)
        sel = pin & zin & ~any_box & (pdist >= 1e-9)
        exp = sorted(tuple(np.round(p, 9)) for p in PC[sel])
        if exp:
            if k >= len(fr.pointcloud_failed_non_detection):
                bad("non-detection:missing", "points inside a non-detection area and outside every box are not reported")
                break
            got = _rows(fr.pointcloud_failed_non_detection[k])
            k += 1
            if got != exp:
                bad("non-detection:rows", "non-detection failure points differ from the reference: %d reported, %d expected" % (len(got), len(exp)))
    if k != len(fr.pointcloud_failed_non_detection):
        bad("non-detection:extra", "more non-detection failure arrays reported than areas with offending points")
    return outcome


def _sensing_manager(style):
    if style not in _M:
        d = scratch.new_dir("c12_" + style)
        root = os.path.join(d, "ds")
        levels = ("full", "most", "partial", "none") if style == "t4" else ("v80-100", "v60-80", "v40-60", "v0-40")
        anns = [dict(inst="i%d" % i, cat="car", pos=(b[0], b[1], 0.7), yaw=b[2], size=b[3], npts=5, vis=levels[(3, 0, 1, 2)[i]]) for i, b in enumerate(FRAME_BOXES)]
        t4.write(root, [dict(ts=1000000, ego=(0.0, 0.0, 0.0), anns=anns)], ["car"], vis_levels=levels)
        _M[style] = (root, d)
    return _M[style]


def check_case(case, acc):
    acc.case()
    lay = case["layer"]

    def bad(sig, msg):
        acc.violation(sig, msg + " | " + str({k: v for k, v in case.items()}), case)

    if lay in ("crop", "crop_big", "crop_empty"):
        spec = _box_spec(case["pos"], case["yaw"], case["size"])
        obj = G.mk3d(spec)
        sc = case["scale"]
        if lay == "crop":
            pc, rel = _lattice(spec, case["intensity"])
        elif lay == "crop_empty":
            pc, rel = np.zeros((0, 3)), []
        else:
            n = 47
            xs = np.linspace(-1.45, 1.45, n) * spec["size"][1] / 2
            ys = np.linspace(-1.45, 1.45, n) * spec["size"][0] / 2
            zs = np.linspace(-1.45, 1.45, n) * spec["size"][2] / 2
            grid = np.array([(a, b, c) for a in xs for b in ys for c in zs])
            c_, s_ = math.cos(spec["yaw"]), math.sin(spec["yaw"])
            pc = np.column_stack([spec["x"] + c_ * grid[:, 0] - s_ * grid[:, 1], spec["y"] + s_ * grid[:, 0] + c_ * grid[:, 1], spec["z"] + grid[:, 2]])
            rel = [(a / (spec["size"][1] / 2), b / (spec["size"][0] / 2), c / (spec["size"][2] / 2)) for a, b, c in grid]
        acc.exec(3)
        inside = obj.crop_pointcloud(pc, sc, inside=True)
        outside = obj.crop_pointcloud(pc, sc, inside=False)
        num = obj.get_inside_pointcloud_num(pc, sc)
        acc.compared()
        mask = [abs(a) < sc and abs(b) < sc and abs(c) <= 1.0 for a, b, c in rel]
        near = [min(abs(abs(a) - sc), abs(abs(b) - sc), abs(abs(c) - 1.0)) for a, b, c in rel]
        if lay == "crop_big":
            keep = [m > 1e-6 for m in near]
            if not all(keep):
                acc.skip("boundary:box-face", len(keep) - sum(keep))
        want = [tuple(np.round(r, 9)) for r, m, nr in zip(pc, mask, near) if m and (lay != "crop_big" or nr > 1e-6)]
        got = _rows(inside)
        if lay == "crop_big":
            amb = {tuple(np.round(r, 9)) for r, nr in zip(pc, near) if nr <= 1e-6}
            got = [r for r in got if r not in amb]
        if got != sorted(want):
            bad("crop:inside-rows", "points reported inside differ from the geometric test (scaled footprint, unscaled height): %d reported, %d expected" % (len(got), len(want)))
        if num != len(inside):
            bad("crop:count", "get_inside_pointcloud_num=%d but crop returns %d rows" % (num, len(inside)))
        if _rows(np.vstack([inside, outside])) != _rows(pc) if len(pc) else (len(inside) or len(outside)):
            bad("crop:partition", "inside and outside selections do not partition the cloud (%d + %d of %d)" % (len(inside), len(outside), len(pc)))
        if obj.point_exist(pc, sc) != (len(inside) > 0):
            bad("crop:point_exist", "point_exist disagrees with the inside selection")
        if inside.shape[1:] != pc.shape[1:]:
            bad("crop:columns", "cropped cloud lost columns: %s -> %s" % (pc.shape, inside.shape))
        # enlarging the scale never removes an inside point
        if lay == "crop":
            bigger = obj.crop_pointcloud(pc, sc * 1.25, inside=True)
            acc.exec()
            if not set(_rows(inside)) <= set(_rows(bigger)):
                bad("crop:scale-monotone", "enlarging the scale from %s to %s removes inside points" % (sc, sc * 1.25))
        acc.state((lay, tuple(case["size"]), sc, int(round(case["yaw"] / (math.pi / 8))), len(inside), case.get("intensity")), nontrivial=0 < len(inside) < len(pc))
        acc.outcome((lay, len(inside)))
        if acc.cases % 97 == 1:
            acc.sample(case)
    elif lay == "prism":
        PC = _frame_cloud()
        poly = list(POLYS[case["poly"]])
        if case["reversed"]:
            poly = list(reversed(poly))
        z0, z1 = case["z"]
        sh = case.get("shift", 0) % len(poly)
        area = [(x, y, z0) for x, y in poly] + [(x, y, z1) for x, y in (poly[sh:] + poly[:sh])]
        acc.exec(2)
        inside = crop_pointcloud(PC, area, inside=True)
        outside = crop_pointcloud(PC, area, inside=False)
        acc.compared()
        pin, pdist = _poly_mask(PC, poly)
        keepm = (pdist > 1e-9) & (np.minimum(np.abs(PC[:, 2] - z0), np.abs(PC[:, 2] - z1)) > 1e-9)
        want = sorted(tuple(np.round(p, 9)) for p in PC[keepm & pin & (PC[:, 2] >= z0) & (PC[:, 2] <= z1)])
        amb = {tuple(np.round(p, 9)) for p in PC[~keepm]}
        got = [r for r in _rows(inside) if r not in amb]
        if got != want:
            bad("prism:inside-rows", "points inside a %s prism differ from the even-odd test: %d reported, %d expected" % ("clockwise" if case["reversed"] else "as-listed", len(got), len(want)))
        if sorted(_rows(inside) + _rows(outside)) != _rows(PC):
            bad("prism:partition", "inside and outside selections of a prism do not partition the cloud (%d + %d of %d)" % (len(inside), len(outside), len(PC)))
        # points whose y coordinate is bit-identical to a vertex's y, left and right of the polygon and just inside it (a horizontal ray
        # through a vertex), plus the vertex rows shifted by one ulp
        key = ("vrow", case["poly"])
        if key not in _EPC:
            xs = [v[0] for v in POLYS[case["poly"]]]
            rows = []
            for vx, vy in POLYS[case["poly"]]:
                for yy in (float(vy), float(np.nextafter(vy, 1e9)), float(np.nextafter(vy, -1e9))):
                    rows += [(min(xs) - 5.0, yy, 0.5, 1.0), (max(xs) + 5.0, yy, 0.5, 1.0), (min(xs) - 0.37, yy, 0.5, 1.0), (0.5 * (min(xs) + max(xs)) + 0.123, yy, 0.5, 1.0)]
            _EPC[key] = np.array(rows)
        PV = _EPC[key]
        acc.exec()
        inside_v = crop_pointcloud(PV, area, inside=True)
        pinv, pdistv = _poly_mask(PV, poly)
        keepv = (pdistv > 1e-9) & (PV[:, 2] > z0 + 1e-9) & (PV[:, 2] < z1 - 1e-9)
        if z0 < 0.5 < z1:
            wantv = sorted(tuple(np.round(p_, 12)) for p_ in PV[keepv & pinv])
            ambv = {tuple(np.round(p_, 12)) for p_ in PV[~keepv]}
            gotv = [r_ for r_ in sorted(tuple(np.round(p_, 12)) for p_ in inside_v) if r_ not in ambv]
            if gotv != wantv:
                bad("prism:vertex-row", "points on the horizontal lines through the polygon's vertices: %d reported inside, %d are inside (first difference %s)" % (
                    len(gotv), len(wantv), sorted(set(gotv) ^ set(wantv))[:2]))
        acc.state(("prism", case["poly"], case["reversed"], tuple(case["z"]), case.get("shift", 0), len(inside)), nontrivial=0 < len(inside) < len(PC))
        acc.outcome(("prism", len(inside)))
    elif lay == "beside":
        root, d = _sensing_manager("t4")
        sc = case["scale"]
        cfgd = {"evaluation_task": "sensing", "target_uuids": None, "box_scale_0m": sc, "box_scale_100m": sc, "min_points_threshold": 1}
        with contextlib.redirect_stderr(io.StringIO()), contextlib.redirect_stdout(io.StringIO()):
            ec = SensingEvaluationConfig([root], "base_link", os.path.join(d, "res_b"), cfgd)
            m = SensingEvaluationManager(ec)
        fg = m.ground_truth_frames[0]
        bx, by, byaw, (bw, bl, bh) = FRAME_BOXES[case["box"]]
        # the area in the box's own axes (u along the length, v along the width), starting 0.2 m outside the annotated footprint
        if case["side"] == "front":
            urng, vrng = (bl / 2 + 0.2, bl / 2 + 3.0), (-1.5 * bw, 1.5 * bw)
        else:
            sgn = 1.0 if case["side"] == "left" else -1.0
            urng, vrng = (-bl, bl), tuple(sorted((sgn * (bw / 2 + 0.2), sgn * (bw / 2 + 3.0))))
        loc = [(urng[0], vrng[0]), (urng[1], vrng[0]), (urng[1], vrng[1]), (urng[0], vrng[1])]
        poly = [(bx + geom.rot2(u_, v_, byaw)[0], by + geom.rot2(u_, v_, byaw)[1]) for u_, v_ in loc]
        key = ("beside", case["box"], case["side"])
        if key not in _EPC:
            pts = []
            for fu in (0.03, 0.12, 0.21, 0.3, 0.45, 0.7, 0.95):
                for fv in (0.03, 0.12, 0.21, 0.3, 0.45, 0.7, 0.95):
                    u_, v_ = urng[0] + fu * (urng[1] - urng[0]), vrng[0] + fv * (vrng[1] - vrng[0])
                    dx, dy = geom.rot2(u_, v_, byaw)
                    pts.append((bx + dx, by + dy, 0.7, 1.0))
            _EPC[key] = np.array(pts)
        PC = _EPC[key]
        zr = (-1.0, 2.0)
        area = [(x, y, zr[0]) for x, y in poly] + [(x, y, zr[1]) for x, y in poly]
        acc.exec()
        out = m.crop_pointcloud(ground_truth_objects=list(fg.objects), pointcloud=PC, non_detection_areas=[area], transforms=fg.transforms)
        acc.compared()
        pin, pdist = _poly_mask(PC, poly)
        any_box = np.zeros(len(PC), dtype=bool)
        amb = pdist < 1e-9
        for b in FRAME_BOXES:
            inside, margin = _box_mask(PC, b, sc, 0.7)
            any_box |= inside
            amb |= margin < 1e-9
        want = sorted(tuple(np.round(p_, 9)) for p_ in PC[pin & ~any_box & ~amb])
        ambs = {tuple(np.round(p_, 9)) for p_ in PC[amb]}
        got = [r_ for r_ in (_rows(out[0]) if len(out) else []) if r_ not in ambs]
        acc.state(("beside", case["box"], case["side"], sc, len(want), int((pin & any_box).sum())), nontrivial=bool((pin & any_box).any()))
        acc.outcome(("beside", len(want)))
        if got != want:
            bad("manager-crop:rows", "manager.crop_pointcloud keeps %d points of an area beginning 0.2 m beside object %d (box scale %s), %d lie in the area and outside every "
                "scaled box" % (len(got), case["box"], sc, len(want)))
    elif lay == "overlap":
        boxes = [OVERLAP[case["scene"]][i] for i in case["order"]]
        key = ("overlap", case["scene"])
        if key not in _EPC:
            pts = []
            for bx, by, byaw, (bw, bl, bh) in OVERLAP[case["scene"]]:
                for a in REL:
                    for b_ in REL:
                        dx, dy = geom.rot2(a * bl / 2, b_ * bw / 2, byaw)
                        for dz in (-0.83, -0.31, 0.17, 0.71, 1.27):
                            pts.append((bx + dx, by + dy, 0.5 + dz * bh / 2, 1.0))
            _EPC[key] = np.array(pts)
        PC = _EPC[key]
        gts = [G.mk3d(_box_spec(b[:2], b[2], b[3], z=0.5, vis=None, uuid="g%d" % i)) for i, b in zip(case["order"], boxes)]
        cfg = SensingFrameConfig(None, case["s0"], case["s100"], case["minp"])
        fr = SensingFrameResult(cfg, 100, "0")
        zr = (-2.0, 3.0)
        polys = [[(-40, -40), (40, -40), (40, 40), (-40, 40)]]
        nd = [crop_pointcloud(PC, [(x, y, zr[0]) for x, y in polys[0]] + [(x, y, zr[1]) for x, y in polys[0]])]
        acc.exec()
        fr.evaluate_frame(gts, PC, nd)
        acc.compared()
        out = _check_frame_result(case, fr, gts, boxes, 0.5, case["s0"], case["s100"], case["minp"], PC, polys, zr, acc, bad)
        acc.state(("overlap", case["scene"], case["s0"], case["s100"], case["minp"], tuple(case["order"]), tuple(out)), nontrivial=True)
        acc.outcome(tuple(sorted(out)))
    elif lay == "mixed":
        boxes = list(MIXED[case["scene"]])
        if case["order"]:
            boxes = list(reversed(boxes))
        key = ("mixed", case["scene"])
        if key not in _EPC:
            big = MIXED[case["scene"]][0]
            ux, uy = big[0] / math.hypot(big[0], big[1]), big[1] / math.hypot(big[0], big[1])
            near = math.hypot(big[0], big[1]) - big[3][1] / 2      # where the large box begins along the line of sight
            _EPC[key] = np.array([(ux * (near + a) - uy * b, uy * (near + a) + ux * b, z, 1.0) for a in (-2.1, -0.6, 0.4, 1.3, 2.2) for b in (-2.0, -0.8, 0.1, 0.9, 2.3)
                                  for z in (0.1, 0.5)])
        PC = _EPC[key]
        gts = [G.mk3d(_box_spec(b[:2], b[2], b[3], z=0.5, vis=None, uuid="g%d" % i)) for i, b in enumerate(boxes)]
        cfg = SensingFrameConfig(None, case["s0"], case["s100"], case["minp"])
        fr = SensingFrameResult(cfg, 100, "0")
        zr = (-2.0, 3.0)
        polys = [[(-40, -40), (40, -40), (40, 40), (-40, 40)]]
        nd = [crop_pointcloud(PC, [(x, y, zr[0]) for x, y in polys[0]] + [(x, y, zr[1]) for x, y in polys[0]])]
        acc.exec()
        fr.evaluate_frame(gts, PC, nd)
        acc.compared()
        out = _check_frame_result(case, fr, gts, boxes, 0.5, case["s0"], case["s100"], case["minp"], PC, polys, zr, acc, bad)
        acc.state(("mixed", case["scene"], case["s0"], case["s100"], case["order"], tuple(out)), nontrivial=True)
        acc.outcome(tuple(sorted(out)))
    elif lay == "elevated":
        zc = case["zc"]
        boxes = [(3.0, 4.0, 0.3, (2.0, 4.0, 2.0)), (-2.0, 1.5, -1.2, (1.0, 1.0, 1.0))]
        if zc not in _EPC:   # one array object per height (the reference masks are memoised per array)
            pts = []
            for bx, by, byaw, (bw, bl, bh) in boxes:
                for a in REL:
                    for b_ in REL:
                        dx, dy = geom.rot2(a * bl / 2 * 1.9, b_ * bw / 2 * 1.9, byaw)
                        for dz in (-0.77, 0.0, 0.61, 1.9):
                            pts.append((bx + dx, by + dy, zc + dz * bh / 2, 1.0))
            _EPC[zc] = np.array(pts)
        PC = _EPC[zc]
        gts = [G.mk3d(_box_spec(b[:2], b[2], b[3], z=zc, vis=None, uuid="g%d" % i)) for i, b in enumerate(boxes)]
        cfg = SensingFrameConfig(None, case["s0"], case["s100"], case["minp"])
        fr = SensingFrameResult(cfg, 100, "0")
        zr = (zc - 3.0, zc + 3.0)
        polys = [[(-12, -12), (14, -12), (14, 14), (-12, 14)]]
        nd = [crop_pointcloud(PC, [(x, y, zr[0]) for x, y in polys[0]] + [(x, y, zr[1]) for x, y in polys[0]])]
        acc.exec()
        fr.evaluate_frame(gts, PC, nd)
        acc.compared()
        out = _check_frame_result(case, fr, gts, boxes, zc, case["s0"], case["s100"], case["minp"], PC, polys, zr, acc, bad)
        acc.state(("elevated", zc, case["s0"], case["s100"], case["minp"], tuple(out)), nontrivial=True)
        acc.outcome(tuple(sorted(out)))
    elif lay == "frame":
        PC = _frame_cloud()
        sel, viss = case["sel"], case["vis"]
        boxes = [FRAME_BOXES[i] for i in sel]
        gts = [G.mk3d(_box_spec(b[:2], b[2], b[3], vis=v, uuid="g%d" % i)) for b, v, i in zip(boxes, viss, sel)]
        cfg = SensingFrameConfig(None, case["s0"], case["s100"], case["minp"])
        fr = SensingFrameResult(cfg, 100, "0")
        zr = (-1.0, 2.0)
        nd = []
        for poly in POLYS:
            area = [(x, y, zr[0]) for x, y in poly] + [(x, y, zr[1]) for x, y in poly]
            nd.append(crop_pointcloud(PC, area))
        acc.exec()
        fr.evaluate_frame(gts, PC, nd)
        acc.compared()
        out = _check_frame_result(case, fr, gts, boxes, 0.7, case["s0"], case["s100"], case["minp"], PC, POLYS, zr, acc, bad)
        acc.state(("frame", tuple(sel), tuple(viss), case["s0"], case["s100"], case["minp"], tuple(out)), nontrivial=len(set(out)) > 1)
        acc.outcome(tuple(sorted(out)))
        if acc.cases % 61 == 1:
            acc.sample(case)
    else:
        root, d = _sensing_manager(case["style"])
        tu, where = case.get("target_uuids"), case.get("where", "config")
        cfgd = {"evaluation_task": "sensing", "target_uuids": tu if where == "config" else None, "box_scale_0m": case["s0"], "box_scale_100m": case["s100"], "min_points_threshold": case["minp"]}
        with contextlib.redirect_stderr(io.StringIO()), contextlib.redirect_stdout(io.StringIO()):
            ec = SensingEvaluationConfig([root], "base_link", os.path.join(d, "res"), cfgd)
            m = SensingEvaluationManager(ec)
        fg = m.ground_truth_frames[0]
        PC = _frame_cloud()
        zr = (-1.0, 2.0)
        areas = [[(x, y, zr[0]) for x, y in poly] + [(x, y, zr[1]) for x, y in poly] for poly in POLYS]
        acc.exec()
        if tu is not None and where == "frame":
            fr = m.add_frame_result(fg.unix_time, fg, PC, areas, SensingFrameConfig(target_uuids=list(tu), box_scale_0m=case["s0"], box_scale_100m=case["s100"],
                                                                                    min_points_threshold=case["minp"]))
        else:
            fr = m.add_frame_result(fg.unix_time, fg, PC, areas)
        acc.compared()
        everything = list(fg.objects)
        if len(everything) != len(FRAME_BOXES):
            bad("manager:frame-modified", "the caller's ground-truth frame holds %d objects after add_frame_result, %d were loaded" % (len(everything), len(FRAME_BOXES)))
        gts = [g for g in everything if tu is None or g.uuid in tu]
        extra = [FRAME_BOXES[int(g.uuid[1:])] for g in everything if not (tu is None or g.uuid in tu)]
        order = [int(g.uuid[1:]) for g in gts]
        boxes = [FRAME_BOXES[i] for i in order]
        vis = [g.visibility for g in gts]
        want_vis = {0: "none", 1: "full", 2: "most", 3: "partial"}
        for g, i in zip(gts, order):
            v = getattr(g.visibility, "value", g.visibility)
            if v != want_vis[i] or not hasattr(g.visibility, "value"):
                bad("manager:visibility", "loaded object %s carries visibility %r, annotation level is %s" % (g.uuid, g.visibility, want_vis[i]))
        out = _check_frame_result(case, fr, gts, boxes, 0.7, case["s0"], case["s100"], case["minp"], PC, POLYS, zr, acc, bad, extra_boxes=extra)
        if "warn" not in out and (tu is None or "i0" in tu):
            bad("manager:no-warning", "the fully occluded annotation (visibility none / v0-40) is not reported as warning")
        acc.state(("manager", case["style"], case["s0"], case["s100"], case["minp"], tuple(tu or ()), where, tuple(out)), nontrivial=True)
