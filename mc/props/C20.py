"""C20 - configuration strings parse to the enum member they name (complete tables)."""
import itertools

import numpy as np

from perception_eval.common.evaluation_task import EvaluationTask, set_task, set_task_lists, set_task_dict
from perception_eval.common.schema import FrameID, Visibility, SensorModality
from perception_eval.common.shape import Shape, ShapeType
from perception_eval.common.transform import HomogeneousMatrix, TransformDict, TransformKey
from perception_eval.evaluation.matching.object_matching import MatchingLabelPolicy

ID = "C20"
RULE = ("complete tables: every member of the six configuration enums x every string parser x spellings "
        "{own value, str(member), documented case variants, documented aliases}; a menu of non-member strings "
        "(incl. values of the other enums); Shape(str|enum) for every shape type; TransformKey/HomogeneousMatrix/"
        "TransformDict for every ordered pair of FrameIDs in every spelling combination. state = (enum, parser, "
        "argument class, outcome class); non-trivial = a member-naming string (round trip demanded)")
ASSUMPTIONS = [
    "case variants are demanded only where the parser documents them (FrameID: upper case allowed; "
    "MatchingLabelPolicy.from_str upper-cases its input)",
    "a non-member string may be rejected by an exception, by None, or by the documented fallback "
    "(Visibility.UNAVAILABLE); it must never yield another member or a foreign object",
]

ENUMS = {
    "EvaluationTask": EvaluationTask, "FrameID": FrameID, "Visibility": Visibility,
    "SensorModality": SensorModality, "ShapeType": ShapeType, "MatchingLabelPolicy": MatchingLabelPolicy,
}
PARSERS = {
    "EvaluationTask": {"from_value": EvaluationTask.from_value, "set_task": set_task,
                       "set_task_lists": lambda s: (set_task_lists([s]) or [None])[0] if len(set_task_lists([s])) <= 1 else set_task_lists([s]),
                       "set_task_dict": lambda s: (list(set_task_dict({s: {}}).keys()) or [None])[0]},
    "FrameID": {"from_value": FrameID.from_value},
    "Visibility": {"from_value": Visibility.from_value},
    "SensorModality": {"from_value": SensorModality.from_value},
    "ShapeType": {"from_value": ShapeType.from_value},
    "MatchingLabelPolicy": {"from_str": MatchingLabelPolicy.from_str},
}
ALIASES = {"Visibility": {"v0-40": "NONE", "v40-60": "PARTIAL", "v60-80": "MOST", "v80-100": "FULL"}}
FALLBACK = {"Visibility": "UNAVAILABLE"}
NON_MEMBERS = ["", " ", "foo", "detection3d", "base_link ", " base_link", "lidar_", "bounding-box", "box",
               "none_", "v0-41", "v100", "not_available", "default_", "allow", "123", "map2", "None", "null",
               # near misses of the visibility aliases (zero padding, other separators) and of frame names (tf-style prefixes)
               "v00-40", "v0-040", "v040-060", "v080-100", "v40-060", "v0_40", "0-40", "v0-40%", "V0-40 ",
               "/map", "//MAP", "robot1/base_link", "map/base_link", "/base_link", "base_link/", "tf/cam_front"]


# letters whose upper case is plain ASCII although they are not the lower case of any ASCII letter (long s, dotless i, ligatures):
# a member value spelled with one of them is another string
_LOOKALIKE = [("s", "\u017f"), ("i", "\u0131"), ("ffi", "\ufb03"), ("ff", "\ufb00"), ("fi", "\ufb01"), ("fl", "\ufb02"), ("st", "\ufb06"), ("ss", "\u00df")]


def _lookalikes(value):
    out = []
    for host in (value.lower(), value.upper()):
        low = host.lower()
        for plain, odd in _LOOKALIKE:
            start = 0
            while True:
                i = low.find(plain, start)
                if i < 0:
                    break
                out.append(host[:i] + odd + host[i + len(plain):])
                start = i + 1
    return out


class _Level(str):
    """a plain str subclass."""


def _variants(enum_name, member):
    """spellings that must parse to `member`."""
    v = [("value", member.value)]
    if str(member) != member.value and type(member).__str__ is not object.__str__ and "." not in str(member):
        v.append(("str", str(member)))
    if enum_name == "FrameID":
        v += [("upper", member.value.upper()), ("lower", member.value.lower()), ("title", member.value.title())]
    if enum_name == "MatchingLabelPolicy":
        v += [("lower", member.value.lower()), ("title", member.value.title()), ("name", member.name)]
    out, seen = [], set()
    for k, s in v:
        if s not in seen:
            seen.add(s)
            out.append((k, s))
    return out


def units(tier, seed):
    u = [{"kind": "parse", "enum": e} for e in ENUMS]
    u.append({"kind": "shape"})
    frames = [m.name for m in FrameID]
    # every ordered pair of frame ids; one unit per source frame
    for f in frames:
        u.append({"kind": "keys", "src": f})
    u.append({"kind": "task_spelling"})
    u.append({"kind": "task_lists"})
    u.append({"kind": "config_policy"})
    u.append({"kind": "frame_distinct"})
    return u


def bounds(tier, seed):
    return {"enums": {k: len(list(v)) for k, v in ENUMS.items()}, "non_member_menu": len(NON_MEMBERS),
            "frame_pairs": len(list(FrameID)) ** 2, "spellings_per_pair": 9}


def run_unit(unit, acc):
    if unit["kind"] == "parse":
        e = unit["enum"]
        cls = ENUMS[e]
        for pname in PARSERS[e]:
            for m in cls:
                for vk, s in _variants(e, m):
                    check_case({"kind": "parse", "enum": e, "parser": pname, "arg": s, "expect": m.name, "variant": vk}, acc)
                    if vk == "value":
                        for st in ("numpy", "subclass"):
                            check_case({"kind": "parse", "enum": e, "parser": pname, "arg": s, "expect": m.name, "variant": "value:" + st, "strtype": st}, acc)
            for alias, target in ALIASES.get(e, {}).items():
                check_case({"kind": "parse", "enum": e, "parser": pname, "arg": alias, "expect": target, "variant": "alias"}, acc)
                check_case({"kind": "parse", "enum": e, "parser": pname, "arg": alias, "expect": target, "variant": "alias:numpy", "strtype": "numpy"}, acc)
            others = set()
            for oe, ocls in ENUMS.items():
                if oe != e:
                    others |= {x.value for x in ocls}
            lowered = {x.value.lower() for x in cls} | {x.name.lower() for x in cls} | set(ALIASES.get(e, {}))
            odd = sorted({x for m in cls for x in _lookalikes(m.value) + _lookalikes(m.name)})
            for s in NON_MEMBERS + sorted(others) + odd:
                if s.lower() in lowered:
                    continue
                check_case({"kind": "parse", "enum": e, "parser": pname, "arg": s, "expect": None, "variant": "non-member"}, acc)
    elif unit["kind"] == "shape":
        for m in ShapeType:
            for size in ([1.0, 2.0, 1.5], [0.5, 0.5, 1.7]):
                check_case({"kind": "shape", "member": m.name, "size": size}, acc)
    elif unit["kind"] == "keys":
        for dst in FrameID:
            check_case({"kind": "keys", "src": unit["src"], "dst": dst.name}, acc)
        if unit["src"] == list(FrameID)[0].name:
            lowered = {x.value.lower() for x in FrameID} | {x.name.lower() for x in FrameID}
            for s_ in NON_MEMBERS:
                if s_.lower() not in lowered:
                    check_case({"kind": "key_nonmember", "arg": s_}, acc)
    elif unit["kind"] == "task_spelling":
        for m in EvaluationTask:
            check_case({"kind": "task_spelling", "task": m.name}, acc)
    elif unit["kind"] == "config_policy":
        for m in ENUMS["MatchingLabelPolicy"]:
            for spell in (m.value, m.value.lower(), m.name):
                for flag in ("absent", True, False):
                    check_case({"kind": "config_policy", "member": m.name, "arg": spell, "flag": flag}, acc)
        for flag in (True, False, "absent"):
            check_case({"kind": "config_policy", "member": None, "arg": None, "flag": flag}, acc)
    elif unit["kind"] == "task_lists":
        names = [m.name for m in EvaluationTask]
        for a in names:
            for b in names:
                check_case(dict(kind="task_lists", tasks=[a, b]), acc)
        check_case(dict(kind="task_lists", tasks=list(reversed(names))), acc)
        check_case(dict(kind="task_lists", tasks=names[3:] + names[:3]), acc)
        check_case(dict(kind="task_lists", tasks=[]), acc)
        # dictionaries keyed by task names with other keys in between: every task keeps its own entry
        junk = ["foo", "", "Detection3d", "sensing_", "none"]
        values = [m.value for m in EvaluationTask]
        for a in values:
            for j in junk[:3]:
                for order in range(3):
                    keys = [[j, a], [a, j], [j, a, junk[3], values[(values.index(a) + 1) % len(values)]]][order]
                    check_case(dict(kind="task_dict", keys=keys), acc)
    elif unit["kind"] == "frame_distinct":
        for a in FrameID:
            check_case(dict(kind="frame_distinct", a=a.name), acc)


def _outcome(fn, arg):
    try:
        return ("ret", fn(arg))
    except Exception as ex:  # noqa
        return ("exc", type(ex).__name__)


def check_case(case, acc):
    acc.case()
    k = case["kind"]
    if k == "parse":
        e, pname, arg = case["enum"], case["parser"], case["arg"]
        cls = ENUMS[e]
        if case.get("strtype") == "numpy":      # the same characters held by a str subclass (an element of a numpy string array,
            arg = np.array([arg])[0]            # a user-defined str type): still that string
        elif case.get("strtype") == "subclass":
            arg = _Level(arg)
        kind, val = _outcome(PARSERS[e][pname], arg)
        acc.exec()
        acc.compared()
        sig = "parse:%s.%s" % (e, pname)
        if case["expect"] is not None:
            want = cls[case["expect"]]
            ok = kind == "ret" and val is want
            acc.state((e, pname, case["variant"], case["expect"], "ok" if ok else (kind, type(val).__name__)), nontrivial=True)
            acc.outcome((e, case["expect"]))
            if not ok:
                acc.violation(sig, "%s.%s(%r) should return the member %s.%s itself, got %s %r" % (
                    e, pname, arg, e, case["expect"], kind, val), case)
        else:
            fb = FALLBACK.get(e)
            if kind == "exc" or val is None:
                oc = "rejected"
            elif fb is not None and val is cls[fb]:
                oc = "fallback"
            else:
                oc = "bad"
                acc.violation(sig + ":non-member", "%s.%s(%r): a non-member string must be rejected or mapped to the "
                              "documented fallback, got %r" % (e, pname, arg, val), case)
            acc.state((e, pname, "non-member", oc))
            acc.outcome((e, oc))
    elif k == "shape":
        m = ShapeType[case["member"]]
        size = tuple(case["size"])
        a = _outcome(lambda s: Shape(s, size), m)
        b = _outcome(lambda s: Shape(s, size), m.value)
        acc.exec(2)
        acc.compared()

        def desc(o):
            if o[0] == "exc":
                return o
            sh = o[1]
            return ("ret", sh.type if isinstance(sh.type, ShapeType) else ("foreign", repr(sh.type)), tuple(sh.size),
                    tuple(map(tuple, np.round(np.array(sh.footprint.exterior.coords), 12))))

        da, db = desc(a), desc(b)
        acc.state(("shape", case["member"], da[0], db[0]), nontrivial=True)
        acc.outcome(("shape", da[0], db[0]))
        if da != db:
            acc.violation("shape:str-vs-enum", "Shape(%r, %s) -> %s but Shape(ShapeType.%s, ...) -> %s" % (
                m.value, size, db[:2], m.name, da[:2]), case)
        elif da[0] == "ret" and da[1] is not m:
            acc.violation("shape:type", "Shape(...).type is %r, expected the member %s" % (da[1], m), case)
    elif k == "keys":
        s, d = FrameID[case["src"]], FrameID[case["dst"]]
        sp = lambda f: [f, f.value, f.value.upper()]  # noqa
        ref_key = TransformKey(s, d)
        mat = HomogeneousMatrix((1.0, 2.0, 3.0), (1.0, 0.0, 0.0, 0.0), s, d)
        table = {ref_key: "hit"}
        td = TransformDict(mat)
        for a, b in itertools.product(sp(s), sp(d)):
            acc.exec()
            acc.compared()
            spell = (type(a).__name__ + ("U" if isinstance(a, str) and a.isupper() else ""),
                     type(b).__name__ + ("U" if isinstance(b, str) and b.isupper() else ""))
            try:
                key = TransformKey(a, b)
                ok = (key.src is s and key.dst is d and key == ref_key and ref_key == key and hash(key) == hash(ref_key)
                      and table.get(key) == "hit")
                m2 = HomogeneousMatrix((1.0, 2.0, 3.0), (1.0, 0.0, 0.0, 0.0), a, b)
                ok = ok and m2.src is s and m2.dst is d
                # registry lookup through every entry point: strings (lower case, and upper case as FrameID.from_value documents) and
                # enums are interchangeable, as tuple and as list; an X-to-X query is left out (the same-frame shortcut compares raw parts)
                for mk in (tuple, list):
                    got = td.get(mk((a, b)))
                    ok = ok and got is mat and td[mk((a, b))] is mat and td.get(key) is mat
                    if s != d:
                        p = td.transform(mk((a, b)), (0.5, 0.0, -1.0))
                        ok = ok and np.allclose(p, (1.5, 2.0, 2.0))
                        # the unregistered direction is answered by the inverse, under every spelling
                        q = td.transform(mk((b, a)), (1.5, 2.0, 2.0))
                        ok = ok and np.allclose(q, (0.5, 0.0, -1.0))
                # item assignment under every spelling registers the same entry
                td2 = TransformDict()
                td2[(a, b)] = mat
                ok = ok and td2.get(ref_key) is mat and td2.get((s, d)) is mat and len(td2) == 1
                td2[(s, d)] = m2
                ok = ok and len(td2) == 1 and td2.get(ref_key) is m2
                detail = ""
            except Exception as ex:  # noqa
                ok = False
                detail = repr(ex)
            acc.state(("keys", spell, s == d, ok), nontrivial=True)
            acc.outcome(("keys", ok))
            if not ok:
                acc.violation("keys:%s" % ("enum-vs-str"), "TransformKey/HomogeneousMatrix/TransformDict spelled (%r, %r) does not "
                              "behave like (%s, %s) %s" % (a, b, s, d, detail), dict(case, a=str(a), b=str(b)))
    elif k == "task_lists":
        members = [EvaluationTask[n] for n in case["tasks"]]
        acc.exec()
        got = _outcome(set_task_lists, [m.value for m in members])
        acc.compared()
        ok = got[0] == "ret" and len(got[1]) == len(members) and all(x is y for x, y in zip(got[1], members))
        if not ok:
            acc.violation("parse:EvaluationTask.set_task_lists:order", "set_task_lists(%s) returned %r: every entry must name its member, in input order" % ([m.value for m in members], got[1]), case)
        acc.state(("task_lists", len(members), ok), nontrivial=len(set(case["tasks"])) > 1)
    elif k == "config_policy":
        # the policy string of an evaluation configuration names the member, whatever the older boolean flag says; without a string the
        # flag alone decides between ALLOW_UNKNOWN and DEFAULT
        from perception_eval.config import PerceptionEvaluationConfig
        from mc.engine import scratch as _scr
        cfg = {"evaluation_task": "detection", "target_labels": ["car"], "label_prefix": "autoware", "max_x_position": 10.0, "max_y_position": 10.0,
               "min_point_numbers": [0], "center_distance_thresholds": [1.0], "plane_distance_thresholds": [1.0], "iou_2d_thresholds": [0.5], "iou_3d_thresholds": [0.5]}
        if case["arg"] is not None:
            cfg["matching_label_policy"] = case["arg"]
        if case["flag"] != "absent":
            cfg["allow_matching_unknown"] = case["flag"]
        want = case["member"] if case["member"] is not None else ("ALLOW_UNKNOWN" if case["flag"] is True else "DEFAULT")
        acc.exec()
        try:
            ec = PerceptionEvaluationConfig(["/nonexistent"], "base_link", _scr.new_dir("c20cfg"), cfg)
            got = ec.label_params["matching_label_policy"]
            got = got.name if hasattr(got, "name") else repr(got)
        except Exception as ex:  # noqa
            got = "EXC:" + type(ex).__name__
        acc.compared()
        acc.state(("config_policy", case["member"], case["arg"], str(case["flag"]), got == want), nontrivial=case["flag"] is False and case["member"] not in (None, "DEFAULT"))
        if got != want:
            acc.violation("parse:config:matching_label_policy", "configuration with matching_label_policy=%r and allow_matching_unknown=%s yields %s, expected %s" % (
                case["arg"], case["flag"], got, want), case)
    elif k == "key_nonmember":
        s_ = case["arg"]
        outs = {}
        for nm, fn in (("FrameID.from_value", lambda: FrameID.from_value(s_)), ("TransformKey(src)", lambda: TransformKey(s_, FrameID.MAP)),
                       ("TransformKey(dst)", lambda: TransformKey(FrameID.BASE_LINK, s_)),
                       ("HomogeneousMatrix(src)", lambda: HomogeneousMatrix((0.0, 0.0, 0.0), (1.0, 0.0, 0.0, 0.0), s_, FrameID.MAP)),
                       ("TransformDict.get", lambda: TransformDict(HomogeneousMatrix((1.0, 0.0, 0.0), (1.0, 0.0, 0.0, 0.0), FrameID.BASE_LINK, FrameID.MAP)).get((s_, FrameID.MAP)))):
            acc.exec()
            o = _outcome(lambda _unused, fn=fn: fn(), None)
            outs[nm] = "rejected" if (o[0] == "exc" or o[1] is None) else "accepted"
        acc.compared()
        acc.state(("key_nonmember", tuple(sorted(outs.items()))), nontrivial=True)
        for nm, oc in outs.items():
            if oc != "rejected":
                acc.violation("keys:non-member-accepted", "%s accepts the string %r, which names no frame" % (nm, s_), case)
    elif k == "task_dict":
        d = {key: {"payload": i} for i, key in enumerate(case["keys"])}
        acc.exec()
        got = _outcome(set_task_dict, dict(d))
        acc.compared()
        ok = got[0] == "ret" and isinstance(got[1], dict)
        want = {}
        if ok:
            for key in case["keys"]:
                one = _outcome(set_task_lists, [key])
                if one[0] == "ret" and len(one[1]) == 1:
                    want[one[1][0]] = d[key]
            ok = len(got[1]) == len(want) and all(any(k_ is m for k_ in got[1]) and got[1][m] is want[m] for m in want)
        if not ok:
            acc.violation("parse:EvaluationTask.set_task_dict:entries", "set_task_dict(%r) returned %r: every key naming a task must carry that key's own entry (expected %r)" % (
                d, got[1], {m.value: v for m, v in want.items()}), case)
        acc.state(("task_dict", len(case["keys"]), tuple(k_ in [m.value for m in EvaluationTask] for k_ in case["keys"]), ok), nontrivial=True)
    elif k == "frame_distinct":
        a = FrameID[case["a"]]
        for b in FrameID:
            acc.exec()
            same = a is b
            eq = (a == b, b == a, a == b.value, TransformKey(a, FrameID.MAP) == TransformKey(b, FrameID.MAP), hash(a) == hash(b) if same else True)
            acc.compared()
            if same != eq[0] or same != eq[1] or same != eq[2] or same != eq[3] or not eq[4]:
                acc.violation("frame-id:equality", "FrameID.%s vs FrameID.%s: ==, reversed ==, == value, TransformKey == give %s; distinct frames must be unequal, a frame equals itself" % (a.name, b.name, eq[:4]), case)
            acc.state(("frame_distinct", same, eq[:4]), nontrivial=not same)
    elif k == "task_spelling":
        from perception_eval.common.label import LabelConverter

        m = EvaluationTask[case["task"]]
        acc.exec(2)
        acc.compared()
        a = _outcome(FrameID.from_task, m)
        b = _outcome(FrameID.from_task, m.value)
        if a != b:
            acc.violation("task:from_task", "FrameID.from_task(%r)=%r but from_task(%s)=%r" % (m.value, b, m, a), case)

        ca = cb = None
        for prefix in ("autoware", "traffic_light"):
            def conv(t, prefix=prefix):
                c = LabelConverter(t, False, prefix)
                return (c.evaluation_task is m, [(li.name, li.label.value) for li in c.label_infos])

            acc.exec(2)
            ca, cb = _outcome(conv, m), _outcome(conv, m.value)
            if ca != cb or (ca[0] == "ret" and not ca[1][0]):
                acc.violation("task:LabelConverter:" + prefix, "LabelConverter(%r, ..., %r) differs from LabelConverter(%s, ...)" % (m.value, prefix, m), case)
        acc.state(("task_spelling", m.name, a[0], ca[0]), nontrivial=True)
        acc.outcome(("task", a[0]))
    if acc.cases % 97 == 1:
        acc.sample(case)
