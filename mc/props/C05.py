"""C05 - CLEAR tracking scores follow their definitions for every history (explicit-state search over frame histories)."""
import itertools
import math
import os

from perception_eval.common.label import AutowareLabel
from perception_eval.common.label import Label
from perception_eval.evaluation.matching import MatchingMode
from perception_eval.evaluation.metrics.tracking.clear import CLEAR
from perception_eval.evaluation.metrics.tracking.tracking_metrics_score import TrackingMetricsScore
from perception_eval.evaluation.result.object_result import DynamicObjectWithPerceptionResult

from mc.gen import frames as F
from mc.gen import objects as G

ID = "C05"
RULE = ("a frame is an injective partial map estimate-id -> (ground-truth id, near|far) | unmatched | absent over ids {a,b}x{x,y} "
        "(28 frames; thorough also {a,b,c}x{x,y}: 94 frames at depth 2); ALL histories [prev, f1..fn] with prev in {empty, any frame} "
        "and n <= 3 (quick) / n <= 4 from the empty previous frame (thorough) are run through CLEAR in CENTERDISTANCE and IOU2D mode "
        "with several ground-truth counts; extras: results of another label, unknown-labelled estimates, estimates that keep their id while their "
        "label alternates car/unknown between frames (6 label schedules, compared with the history giving the relabelled stretch an id of its own); every history is re-run "
        "under 7 bijective renamings of estimate and ground-truth ids (two of them to un-padded numeric ids whose concatenations coincide); TrackingMetricsScore._sum_clear over pairs of per-label "
        "histories; a manager layer (tracking task, real matcher) over 3-frame sequences. state = (previous frame, current frame, "
        "running counters class); non-trivial = history containing an id switch, a FP or a carried-over pair")
ASSUMPTIONS = [
    "an estimated track is identified by its id and label (the anchor code's reading of 'estimated track'): a label change under the same id is "
    "compared with a change of id, never with an unchanged track",
    "exact TP/FP/switch/score equality with the reference is asserted on 'stable' histories only (a pair present in consecutive "
    "frames keeps its near/far flag), which makes CLEAR's carried-over score unobservable; the accounting identity tp+fp = "
    "#results and the MOTA/MOTP formulas are asserted on all histories",
    "a pair keeps the same matching score in every frame it appears in (pooled result objects)",
]
EST, GTS = ["a", "b"], ["x", "y"]
SC = {("a", "x"): 0.2, ("a", "y"): 0.3, ("b", "x"): 0.4, ("b", "y"): 0.5, ("c", "x"): 0.25, ("c", "y"): 0.35}
_POOL = {}
RENAMINGS = [({"a": "b", "b": "a", "c": "c"}, {"x": "x", "y": "y"}), ({"a": "a", "b": "b", "c": "c"}, {"x": "y", "y": "x"}),
             ({"a": "p", "b": "q", "c": "r"}, {"x": "u", "y": "v"}), ({"a": "b", "b": "c", "c": "a"}, {"x": "y", "y": "x"}),
             # un-padded numeric ids: est "1" + gt "12" and est "11" + gt "2" read the same when written one after the other
             ({"a": "1", "b": "11", "c": "111"}, {"x": "12", "y": "2"}), ({"a": "11", "b": "1", "c": "2"}, {"x": "2", "y": "12"}),
             # ids that are falsy strings / look like numbers: still ids
             ({"a": "", "b": "0", "c": "00"}, {"x": "0", "y": ""})]
CAR, PED = AutowareLabel.CAR, AutowareLabel.PEDESTRIAN


def _obj(p, uuid, label="CAR"):
    return G.mk3d(dict(x=p[0], y=p[1], z=0.0, yaw=0.0, size=[2.0, 4.0, 1.5], label=label, uuid=uuid, score=0.9))


def R(e, g, near, re=None, rg=None, elabel="CAR", glabel="CAR", raw=None, policy=None):
    """pooled result object for pair (e,g,near); uuids optionally renamed (geometry/score keyed by the original pair); raw = the
    dataset / message spelling the labels were converted from (same evaluated label)."""
    en = (re or {}).get(e, e)
    gn = None if g is None else (rg or {}).get(g, g)
    k = (e, g, near, en, gn, elabel, glabel, raw, policy)
    if k not in _POOL:
        eo = _obj((0.0, 0.0), en, elabel)
        go = None if g is None else _obj(((SC[(e, g)] if near else 5.0 + SC[(e, g)]), 0.0), gn, glabel)
        if raw is not None:
            eo.semantic_label = Label(eo.semantic_label.label, raw[0], list(eo.semantic_label.attributes))
            if go is not None:
                go.semantic_label = Label(go.semantic_label.label, raw[1], list(go.semantic_label.attributes))
        if policy is not None:
            from perception_eval.evaluation.matching import MatchingLabelPolicy
            _POOL[k] = DynamicObjectWithPerceptionResult(eo, go, MatchingLabelPolicy[policy])
        else:
            _POOL[k] = DynamicObjectWithPerceptionResult(eo, go)
    return _POOL[k]


# spellings that LabelConverter maps to CAR (merge_similar_labels adds truck/bus/trailer); the evaluated label is the same
RAW_NAMES = [("car", "car"), ("vehicle.car", "car"), ("Car", "vehicle.car"), ("truck", "vehicle.truck")]


def frames_over(ests):
    opts = [None, ("U",), ("x", True), ("x", False), ("y", True), ("y", False)]
    out = []
    for choice in itertools.product(opts, repeat=len(ests)):
        gs = [o[0] for o in choice if o and o[0] != "U"]
        if len(gs) != len(set(gs)):
            continue
        f = []
        for e, o in zip(ests, choice):
            if o is None:
                continue
            f.append((e, None, False) if o[0] == "U" else (e, o[0], o[1]))
        out.append(tuple(f))
    return out


FR2 = frames_over(["a", "b"])


def units(tier, seed):
    u = []
    for i in range(len(FR2)):
        u.append(dict(kind="hist", prev=None, first=i, depth=3 if tier == "quick" else 4))
        u.append(dict(kind="hist_prev", prev=i, depth=2 if tier == "quick" else 3))
    nf3 = len(frames_over(["a", "b", "c"]))
    for i in range(0, nf3, 8):
        u.append(dict(kind="three", lo=i, hi=min(nf3, i + 8)))
    if tier == "thorough":   # three estimates: all histories of depth 3 from every first frame
        for i in range(nf3):
            u.append(dict(kind="three_deep", first=i))
    u.append(dict(kind="extras"))
    u.append(dict(kind="laws"))
    u.append(dict(kind="long"))
    for i in range(0, len(FR2), 7):
        u.append(dict(kind="rawname", lo=i, hi=min(len(FR2), i + 7)))
        u.append(dict(kind="unk_tracks", lo=i, hi=min(len(FR2), i + 7)))
    for i in range(len(FR2)):
        u.append(dict(kind="sum", first=i))
        u.append(dict(kind="two_label", first=i))
    for pat in range(4):
        u.append(dict(kind="mgr", pattern=pat))
    return u


def bounds(tier, seed):
    return {"frames": len(FR2), "depth_from_empty_prev": 3 if tier == "quick" else 4, "depth_from_any_prev": 2 if tier == "quick" else 3,
            "three_estimate_frames": len(frames_over(["a", "b", "c"])), "renamings": len(RENAMINGS), "modes": ["CENTERDISTANCE", "IOU2D"],
            "gt_counts": [0, 1, 3, 7]}


# ---------------------------------------------------------------------------------------------------
def ref_step(prev, cur):
    """documented per-step accounting on (e, g, near) triples with correct labels; returns tp, fp, switches, score, results"""
    tp = fp = sw = 0
    sc = 0.0
    prev_tp = [(e, g) for (e, g, n) in prev if g is not None and n]
    for (e, g, n) in cur:
        if g is not None and n:
            tp += 1
            sc += SC[(e, g)]
            if any((pe == e and pg != g) or (pg == g and pe != e) for pe, pg in prev_tp):
                sw += 1
        else:
            fp += 1
    return tp, fp, sw, sc


def stable(prev, cur):
    pm = {(e, g): n for e, g, n in prev if g}
    return all(pm.get((e, g), n) == n for e, g, n in cur if g)


def run_clear(hist, num_gt, mode, thr, re=None, rg=None, extras=None):
    frames = [[R(e, g, n, re, rg) for (e, g, n) in f] for f in hist]
    if extras:
        for k, ex in extras.items():
            frames[k] = frames[k] + ex
    return CLEAR(frames, num_gt, [CAR], mode, [thr])


def _results(c):
    return (c.tp, c.fp, c.id_switch, round(c.tp_matching_score, 9), c.mota, c.motp)


MODES = [("CENTERDISTANCE", MatchingMode.CENTERDISTANCE, 1.0), ("IOU2D", MatchingMode.IOU2D, 0.3), ("CENTERDISTANCE@0", MatchingMode.CENTERDISTANCE, 0.0)]


def _score_of(e, g, mode):
    return R(e, g, True).get_matching(mode).value


def check_history(case, acc):
    hist = [tuple(tuple(r) for r in f) for f in case["hist"]]
    num_gt = case["G"]

    def bad(sig, msg):
        acc.violation(sig, msg + " | history=%s G=%s mode=%s" % (hist, num_gt, case["mode"]), case)

    mname, mode, thr = next(m for m in MODES if m[0] == case["mode"])
    if thr == 0.0:   # the strictest distance threshold: no pair is near
        hist_eff = [tuple((e, g, False) for (e, g, n) in f) for f in hist]
    else:
        hist_eff = hist
    frames = [[R(e, g, n) for (e, g, n) in f] for f in hist]
    shape0 = [len(f) for f in frames]
    acc.exec()
    c = CLEAR(frames, num_gt, [CAR], mode, [thr])
    acc.compared()
    if len(hist) <= 4:
        # scoring the same per-frame lists again (also at another threshold first, as evaluate_tracking does) must give the same
        # result and leave the caller's lists untouched
        acc.exec(2)
        CLEAR(frames, num_gt, [CAR], mode, [50.0 if mode == MatchingMode.CENTERDISTANCE else 0.0])
        c_again = CLEAR(frames, num_gt, [CAR], mode, [thr])
        if [len(f) for f in frames] != shape0:
            bad("container-mutated", "CLEAR modified the caller's per-frame result lists: %s -> %s" % (shape0, [len(f) for f in frames]))
        if _results(c_again) != _results(c):
            bad("re-evaluation-differs", "scoring the same history again gives %s, first %s" % (_results(c_again), _results(c)))
    hist_report, hist = hist, hist_eff
    nres = sum(len(f) for f in hist[1:])
    st = all(stable(hist[i - 1], hist[i]) for i in range(1, len(hist)))
    # (i) accounting identity on all histories
    if abs(c.tp + c.fp - nres) > 1e-9:
        bad("tp+fp!=results", "tp=%s fp=%s but %d results of the evaluated label in frames 1..n" % (c.tp, c.fp, nres))
    if c.results["predict_num"] != nres:
        bad("predict_num", "predict_num=%s, %d results" % (c.results["predict_num"], nres))
    # (iii) formulas from the reported counters
    want_mota = float("inf") if num_gt == 0 else max(0.0, (c.tp - c.fp - c.id_switch) / num_gt)
    want_motp = float("inf") if c.tp == 0 else c.tp_matching_score / c.tp
    if not (c.mota == want_mota or abs(c.mota - want_mota) < 1e-12):
        bad("mota-formula", "MOTA=%r, max(0,(TP-FP-IDsw)/G)=%r from tp=%s fp=%s sw=%s" % (c.mota, want_mota, c.tp, c.fp, c.id_switch))
    if not (c.motp == want_motp or abs(c.motp - want_motp) < 1e-12):
        bad("motp-formula", "MOTP=%r, score/TP=%r" % (c.motp, want_motp))
    # (ii) reference on stable histories
    tp = fp = sw = 0
    sc = 0.0
    for i in range(1, len(hist)):
        a, b, s, q = ref_step(hist[i - 1], hist[i])
        tp, fp, sw = tp + a, fp + b, sw + s
        if mname == "CENTERDISTANCE":
            sc += q
        else:
            sc += sum(_score_of(e, g, mode) for (e, g, n) in hist[i] if g is not None and n)
    if st:
        got = (c.tp, c.fp, c.id_switch)
        if got != (tp, fp, sw):
            sig = "clear:counts" if (c.tp, c.fp) != (tp, fp) else "clear:id-switch"
            bad(sig, "CLEAR reports tp=%s fp=%s id_switch=%s, definitions give tp=%d fp=%d id_switch=%d" % (c.tp, c.fp, c.id_switch, tp, fp, sw))
        if abs(c.tp_matching_score - sc) > 1e-9:
            bad("clear:score", "tp_matching_score=%r, sum of TP scores=%r" % (c.tp_matching_score, sc))
        if tp and abs(c.motp - sc / tp) > 1e-9:
            bad("clear:motp", "MOTP=%r, mean TP score=%r" % (c.motp, sc / tp))
    else:
        acc.note("unstable-history")
    # (iv) renaming invariance on all histories
    base = _results(c)
    for re, rg in RENAMINGS:
        acc.exec()
        c2 = run_clear(hist_report, num_gt, mode, thr, re, rg)
        if _results(c2) != base:
            bad("renaming", "renaming estimates %s / ground truths %s changes the result: %s -> %s" % (re, rg, base, _results(c2)))
    last, prev = hist[-1], hist[-2]
    acc.state((prev, last, min(sw, 2), min(tp, 3), st), nontrivial=sw > 0 or fp > 0 or not st)
    acc.outcome((c.tp, c.fp, c.id_switch))
    if acc.cases % 7001 == 1:
        acc.sample(case)


def run_unit(unit, acc):
    k = unit["kind"]
    if k == "hist":
        def rec(h, depth):
            for gcount in ((3,) if len(h) < depth + 1 else (0, 1, 3, 7)):
                for m in (MODES if (gcount == 3 and len(h) <= 3) else (MODES[:2] if gcount == 3 else MODES[:1])):
                    check_case(dict(kind="hist", hist=[list(map(list, f)) for f in h], G=gcount, mode=m[0]), acc)
            if len(h) < depth + 1:
                for f in FR2:
                    rec(h + [f], depth)
        rec([(), FR2[unit["first"]]], unit["depth"])
    elif k == "hist_prev":
        prev = FR2[unit["prev"]]

        def rec(h, depth):
            check_case(dict(kind="hist", hist=[list(map(list, f)) for f in h], G=3, mode="CENTERDISTANCE"), acc)
            if len(h) < depth + 1:
                for f in FR2:
                    rec(h + [f], depth)
        for f in FR2:
            rec([prev, f], unit["depth"])
    elif k == "three":
        F3 = frames_over(["a", "b", "c"])
        for p in F3[unit["lo"]:unit["hi"]]:
            for cur in F3:
                check_case(dict(kind="hist", hist=[list(map(list, p)), list(map(list, cur))], G=3, mode="CENTERDISTANCE"), acc)
    elif k == "three_deep":
        F3 = frames_over(["a", "b", "c"])
        f1 = F3[unit["first"]]
        for f2 in F3:
            for f3 in F3[::2]:
                check_case(dict(kind="hist", hist=[[], list(map(list, f1)), list(map(list, f2)), list(map(list, f3))], G=3, mode="CENTERDISTANCE"), acc)
    elif k == "extras":
        for p in FR2:
            for cur in FR2:
                for ex in ("other-label", "unknown-est", "both"):
                    check_case(dict(kind="extras", hist=[list(map(list, p)), list(map(list, cur))], extra=ex), acc)
    elif k == "long":
        # 30-frame histories built by cycling through every frame of the alphabet with three strides
        for stride in (1, 5, 11):
            for start in range(0, len(FR2), 4):
                h = [()] + [FR2[(start + stride * i) % len(FR2)] for i in range(30)]
                for gcount in (3, 40):
                    check_case(dict(kind="hist", hist=[list(map(list, f)) for f in h], G=gcount, mode="CENTERDISTANCE"), acc)
    elif k == "unk_tracks":
        for p in FR2[unit["lo"]:unit["hi"]]:
            for cur in FR2:
                for nxt in FR2[::3]:
                    check_case(dict(kind="unk_tracks", hist=[list(map(list, p)), list(map(list, cur)), list(map(list, nxt))]), acc)
    elif k == "rawname":
        for p in FR2[unit["lo"]:unit["hi"]]:
            for cur in FR2:
                for nxt in FR2[::3]:
                    for rot in range(3):
                        check_case(dict(kind="rawname", hist=[list(map(list, p)), list(map(list, cur)), list(map(list, nxt))], rot=rot), acc)
    elif k == "laws":
        for n in range(1, 7):
            check_case(dict(kind="law", law="perfect", n=n), acc)
            for at in range(1, n):
                check_case(dict(kind="law", law="new-id", n=n, at=at), acc)
                check_case(dict(kind="law", law="exchange", n=n, at=at), acc)
    elif k == "two_label":
        f1 = FR2[unit["first"]]
        for f2 in FR2[::2]:
            for g1 in FR2[::3]:
                for g2 in FR2[::4]:
                    for order in (0, 1):
                        check_case(dict(kind="two_label", car=[[], list(map(list, f1)), list(map(list, f2))], ped=[[], list(map(list, g1)), list(map(list, g2))],
                                        order=order), acc)
    elif k == "sum":
        f1 = FR2[unit["first"]]
        for f2 in FR2:
            for g1 in FR2[::3]:
                for g2 in FR2[::5]:
                    check_case(dict(kind="sum", car=[[], list(map(list, f1)), list(map(list, f2))], ped=[[], list(map(list, g1)), list(map(list, g2))]), acc)
    else:
        for ea in range(4):
            for eb in range(4):
                for ea2 in range(4):
                    for eb2 in range(4):
                        check_case(dict(kind="mgr", pattern=unit["pattern"], f1=[ea, eb], f2=[ea2, eb2]), acc)


def check_case(case, acc):
    acc.case()
    k = case["kind"]
    if k == "hist":
        return check_history(case, acc)

    def bad(sig, msg):
        acc.violation(sig, msg + " | " + str({a: b for a, b in case.items()}), case)

    if k == "extras":
        hist = [tuple(tuple(r) for r in f) for f in case["hist"]]
        other = DynamicObjectWithPerceptionResult(_obj((0, 0), "o", "PEDESTRIAN"), _obj((0.1, 0), "w", "PEDESTRIAN"))
        unk = DynamicObjectWithPerceptionResult(_obj((0, 0), "k", "UNKNOWN"), _obj((0.1, 0), "z", "CAR"))
        ex = {"other-label": [other], "unknown-est": [unk], "both": [other, unk]}[case["extra"]]
        acc.exec(2)
        c = run_clear(hist, 3, MatchingMode.CENTERDISTANCE, 1.0, extras={0: ex, 1: ex})
        c0 = run_clear(hist, 3, MatchingMode.CENTERDISTANCE, 1.0)
        acc.compared()
        n_unk = 1 if case["extra"] in ("unknown-est", "both") else 0
        # a result of another label is not of the evaluated label: no effect; an unknown-labelled estimate paired with a car is a FP
        if (c.tp, c.id_switch, round(c.tp_matching_score, 9)) != (c0.tp, c0.id_switch, round(c0.tp_matching_score, 9)) or c.fp != c0.fp + n_unk:
            bad("extras", "adding %s results changes the accounting: %s -> %s" % (case["extra"], _results(c0), _results(c)))
        acc.state(("extras", case["extra"], hist[0], hist[1]), nontrivial=True)
    elif k == "unk_tracks":
        # tracks whose estimates are labelled unknown, paired with car ground truths under the policy that accepts unknown estimates
        # (and any-label estimates under ALLOW_ANY): label-correct pairs, so the accounting is that of car-labelled tracks
        hist = [tuple(tuple(r) for r in f) for f in case["hist"]]
        acc.exec(3)
        # (a GT-less estimate labelled unknown / bus is not a result of the evaluated label CAR: the reference history leaves those out)
        c0 = CLEAR([[R(e, g, n, policy="ALLOW_UNKNOWN") for (e, g, n) in f if g is not None] for f in hist], 3, [CAR], MatchingMode.CENTERDISTANCE, [1.0])
        cu = CLEAR([[R(e, g, n, elabel="UNKNOWN", policy="ALLOW_UNKNOWN") for (e, g, n) in f] for f in hist], 3, [CAR], MatchingMode.CENTERDISTANCE, [1.0])
        ca = CLEAR([[R(e, g, n, elabel="BUS" if e == "a" else "UNKNOWN", policy="ALLOW_ANY") for (e, g, n) in f] for f in hist], 3, [CAR], MatchingMode.CENTERDISTANCE, [1.0])
        acc.compared()
        for nm, cx in (("unknown-labelled estimates under ALLOW_UNKNOWN", cu), ("bus / unknown-labelled estimates under ALLOW_ANY", ca)):
            if _results(cx) != _results(c0):
                bad("label-policy-dependence", "%s score %s, car-labelled estimates on the same tracks %s" % (nm, _results(cx), _results(c0)))
        acc.state(("unk_tracks", hist), nontrivial=c0.id_switch > 0 or c0.tp > 0)
        # an estimated track is identified by its id AND label (the reading under which the anchor code and the statement agree): an estimate
        # that keeps its id but is labelled differently from one frame to the next (car, unknown, car - all label-correct under the policy)
        # scores exactly like the history in which the differently labelled stretch carries an id of its own
        for sched in (("CAR", "UNKNOWN", "CAR"), ("UNKNOWN", "CAR", "CAR"), ("CAR", "CAR", "UNKNOWN"), ("UNKNOWN", "UNKNOWN", "CAR"),
                      ("CAR", "UNKNOWN", "UNKNOWN"), ("UNKNOWN", "CAR", "UNKNOWN")):
            if not all(any(e == "a" for (e, g, n) in f) for f in hist[:2]) and not all(any(e == "a" for (e, g, n) in f) for f in hist[1:]):
                continue     # "a" is never present in two consecutive frames: nothing to relabel
            acc.exec(2)
            lab = lambda e, fi: sched[fi] if e == "a" else "CAR"  # noqa
            cx = CLEAR([[R(e, g, n, elabel=lab(e, fi), policy="ALLOW_UNKNOWN") for (e, g, n) in f] for fi, f in enumerate(hist)], 3, [CAR], MatchingMode.CENTERDISTANCE, [1.0])
            cr = CLEAR([[R(e, g, n, re={"a": "a~unk"} if lab(e, fi) == "UNKNOWN" else None, policy="ALLOW_UNKNOWN") for (e, g, n) in f
                         if not (g is None and lab(e, fi) == "UNKNOWN")] for fi, f in enumerate(hist)], 3, [CAR], MatchingMode.CENTERDISTANCE, [1.0])
            acc.compared()
            if _results(cx) != _results(cr):
                bad("relabelled-track", "estimate 'a' labelled %s over the frames (same id) scores %s; with the unknown-labelled stretch under an id of its own %s" % (
                    "/".join(sched), _results(cx), _results(cr)))
    elif k == "rawname":
        # the same tracks, spelled differently from frame to frame in the source data: the evaluated labels are identical
        hist = [tuple(tuple(r) for r in f) for f in case["hist"]]
        acc.exec(2)
        c0 = run_clear(hist, 3, MatchingMode.CENTERDISTANCE, 1.0)
        frames = [[R(e, g, n, raw=RAW_NAMES[(fi + case["rot"] + (ri if case["rot"] == 2 else 0)) % len(RAW_NAMES)]) for ri, (e, g, n) in enumerate(f)]
                  for fi, f in enumerate(hist)]
        c = CLEAR(frames, 3, [CAR], MatchingMode.CENTERDISTANCE, [1.0])
        acc.compared()
        if _results(c) != _results(c0):
            bad("raw-name-dependence", "objects of the same evaluated label CAR whose source spelling differs between frames score %s, "
                "with one spelling %s" % (_results(c), _results(c0)))
        acc.state(("rawname", hist, case["rot"]), nontrivial=c0.id_switch > 0 or c0.tp > 0)
    elif k == "law":
        n = case["n"]
        both = (("a", "x", True), ("b", "y", True))
        if case["law"] == "perfect":
            hist = [()] + [both] * n
            acc.exec()
            c = run_clear(hist, 2 * n, MatchingMode.CENTERDISTANCE, 1.0)
            if abs(c.mota - 1.0) > 1e-12 or c.id_switch != 0:
                bad("law:perfect", "perfect tracker over %d frames: MOTA=%r id_switch=%d" % (n, c.mota, c.id_switch))
        elif case["law"] == "new-id":
            at = case["at"]
            hist = [()] + [(("a", "x", True),) if i < at else (("b", "x", True),) for i in range(n)]
            acc.exec()
            c = run_clear(hist, n, MatchingMode.CENTERDISTANCE, 1.0)
            if c.id_switch != 1 or c.tp != n or c.fp != 0:
                bad("law:new-id", "new id on a continuing target at frame %d of %d: id_switch=%d tp=%s fp=%s" % (at, n, c.id_switch, c.tp, c.fp))
        else:
            at = case["at"]
            swapped = (("a", "y", True), ("b", "x", True))
            hist = [()] + [both if i < at else swapped for i in range(n)]
            acc.exec()
            c = run_clear(hist, 2 * n, MatchingMode.CENTERDISTANCE, 1.0)
            if c.id_switch != 2 or c.tp != 2 * n:
                bad("law:exchange", "exchanging two identities at frame %d of %d: id_switch=%d tp=%s" % (at, n, c.id_switch, c.tp))
        acc.compared()
        acc.state(("law", case["law"], n, case.get("at")), nontrivial=case["law"] != "perfect")
    elif k == "two_label":
        # a single CLEAR over two target labels with different thresholds: every result is judged with its own label's threshold, so
        # the counters are those of the two single-label CLEARs added up (cars: 1.0 m, pedestrians: 0.25 m -> the 0.3 / 0.5 pairs fail)
        car = [tuple(tuple(r) for r in f) for f in case["car"]]
        ped = [tuple(tuple(r) for r in f) for f in case["ped"]]
        fc = [[R(e, g, n) for (e, g, n) in f] for f in car]
        fp_ = [[R(e, g, n, {"a": "pa", "b": "pb"}, {"x": "px", "y": "py"}, "PEDESTRIAN", "PEDESTRIAN") for (e, g, n) in f] for f in ped]
        both = [(a + b) if case["order"] == 0 else (b + a) for a, b in zip(fc, fp_)]
        acc.exec(3)
        c2 = CLEAR(both, 7, [CAR, PED], MatchingMode.CENTERDISTANCE, [1.0, 0.25])
        cc = CLEAR(fc, 4, [CAR], MatchingMode.CENTERDISTANCE, [1.0])
        cp = CLEAR(fp_, 3, [PED], MatchingMode.CENTERDISTANCE, [0.25])
        acc.compared()
        got = (c2.tp, c2.fp, c2.id_switch, round(c2.tp_matching_score, 9))
        want = (cc.tp + cp.tp, cc.fp + cp.fp, cc.id_switch + cp.id_switch, round(cc.tp_matching_score + cp.tp_matching_score, 9))
        if got != want:
            bad("two-label:not-additive", "one CLEAR over [CAR, PEDESTRIAN] with thresholds [1.0, 0.25] reports (tp, fp, id_switch, score) = %s, the two single-label CLEARs add up to %s" % (got, want))
        acc.state(("two_label", car[1], car[2], ped[1], ped[2], case["order"]), nontrivial=cc.id_switch + cp.id_switch > 0 or cp.fp > 0)
    elif k == "sum":
        car = [tuple(tuple(r) for r in f) for f in case["car"]]
        ped = [tuple(tuple(r) for r in f) for f in case["ped"]]
        fc = [[R(e, g, n) for (e, g, n) in f] for f in car]
        fp_ = [[R(e, g, n, None, None, "PEDESTRIAN", "PEDESTRIAN") for (e, g, n) in f] for f in ped]
        acc.exec()
        ts = TrackingMetricsScore({CAR: fc, PED: fp_}, {CAR: 4, PED: 3}, [CAR, PED], MatchingMode.CENTERDISTANCE, [1.0, 1.0])
        mota, motp, sw = ts._sum_clear()
        acc.compared()
        c1, c2 = ts.clears
        raw = [(c.tp - c.fp - c.id_switch) for c in (c1, c2)]
        if sw != c1.id_switch + c2.id_switch:
            bad("sum:id-switch", "total id switches %d != %d + %d" % (sw, c1.id_switch, c2.id_switch))
        tp_tot = c1.tp + c2.tp
        want_motp = float("inf") if tp_tot == 0 else (c1.tp_matching_score + c2.tp_matching_score) / tp_tot
        if not (motp == want_motp or abs(motp - want_motp) < 1e-9):
            bad("sum:motp", "total MOTP %r, pooled mean TP score %r" % (motp, want_motp))
        if all(r >= 0 for r in raw):
            want = max(0.0, sum(raw) / 7.0)
            if abs(mota - want) > 1e-9:
                bad("sum:mota", "total MOTA %r, ground-truth-weighted total %r" % (mota, want))
        else:
            acc.note("per-label-clamp-active")
        acc.state(("sum", car[1], car[2], ped[1], ped[2]), nontrivial=c1.id_switch + c2.id_switch > 0)
    else:
        _check_mgr(case, acc, bad)


# manager layer: real matcher decides the pairing; the reference is fed with the realised pairs --------------------
GT_POS = {"x": (5.0, 0.0), "y": (5.0, 6.0)}
EST_OPT = [None, (5.3, 0.1), (5.2, 6.2), (9.0, 3.0)]  # absent, near x, near y, far from both (still matched: no radius)


def _check_mgr(case, acc, bad):
    m = F.manager("tracking", "base_link", dict(center_distance_thresholds=[[1.0, 1.0]], plane_distance_thresholds=None, iou_2d_thresholds=None,
                                                 iou_3d_thresholds=None, max_matchable_radii=[2.5, 2.5]))
    m.frame_results = []
    pat = case["pattern"]
    ids = [("a", "b"), ("b", "a")] if pat in (1, 3) else [("a", "b"), ("a", "b")]
    prev_pairs = []
    ego = (0.0, 0.0, 0.0)
    for fi, sel in enumerate((case["f1"], case["f2"])):
        gts = [_obj(GT_POS[g], g) for g in (("x", "y") if pat < 2 or fi == 0 else ("x",))]
        ests = []
        for slot, o in enumerate(sel):
            if EST_OPT[o] is not None:
                e = _obj(EST_OPT[o], ids[fi][slot])
                e.semantic_score = 0.9 - 0.1 * slot
                ests.append(e)
        acc.exec()
        fr = m.add_frame_result(100 + fi, F.frame_gt(gts, ego, 100 + fi, str(fi)), ests,
                                F.crit_config(m.evaluator_config, dict(max_x=[50.0, 50.0], max_y=[50.0, 50.0])), F.pf_config(m.evaluator_config, [1.0, 1.0]))
        pairs = [(r.estimated_object.uuid, None if r.ground_truth_object is None else r.ground_truth_object.uuid,
                  r.ground_truth_object is not None and r.center_distance.value < 1.0,
                  None if r.ground_truth_object is None else r.center_distance.value) for r in fr.object_results]
        c = fr.metrics_score.tracking_scores[0].clears[0]
        prev_tp = [(e, g) for e, g, n, _ in prev_pairs if n]
        tp = sum(1 for e, g, n, _ in pairs if n)
        carried = any((e, g) in prev_tp and not n and g is not None for e, g, n, _ in pairs)
        sw = sum(1 for e, g, n, _ in pairs if n and any((pe == e and pg != g) or (pg == g and pe != e) for pe, pg in prev_tp))
        acc.compared()
        if abs(c.tp + c.fp - len(pairs)) > 1e-9:
            bad("mgr:tp+fp!=results", "frame %d: tp=%s fp=%s for %d results" % (fi, c.tp, c.fp, len(pairs)))
        if not carried and (c.tp, c.id_switch) != (tp, sw):
            bad("mgr:clear", "frame %d: manager CLEAR tp=%s id_switch=%s, definitions give tp=%d id_switch=%d (pairs %s, previous TP %s)" % (
                fi, c.tp, c.id_switch, tp, sw, [(e, g, n) for e, g, n, _ in pairs], prev_tp))
        prev_pairs = pairs
    acc.state(("mgr", pat, tuple(case["f1"]), tuple(case["f2"])), nontrivial=pat in (1, 3))
    m.frame_results = []
