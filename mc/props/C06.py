"""C06 - matching scores are geometrically exact, bounded and symmetric."""
import itertools
import math

import numpy as np
import os

from perception_eval.evaluation.matching import CenterDistanceMatching, IOU2dMatching, IOU3dMatching, PlaneDistanceMatching
from perception_eval.evaluation.result.object_result import DynamicObjectWithPerceptionResult

from mc.gen import objects as G
from mc.ref import geom

ID = "C06"
RULE = ("box pairs: sizes^2 (3 quick / 4 thorough: unit, car, sliver 0.05x5, large 10x10) x yaw_a x yaw_b (incl. non-multiples of "
        "pi/2) x relative placement {identical, nested, 3 overlaps, touching, disjoint} x height relation {same, partial, disjoint} x "
        "base positions around the ego; for every pair: the four scores, argument swap, common rotations about the ego, a common "
        "translation, the map-frame rendering under each ego pose, and the fields of DynamicObjectWithPerceptionResult; all 81^2 "
        "integer ROI pairs over {0,3,7}^2 x {1,4,10}^2. state = (size pair, placement, height relation, yaw class, IoU bucket); "
        "non-trivial = partially overlapping rotated boxes")
ASSUMPTIONS = [
    "reference = Sutherland-Hodgman clipping + shoelace area (mc/ref/geom.py), tolerance 1e-9 (1e-6 through map-frame transforms); "
    "plane-distance cases whose 2nd/3rd nearest corner distances differ by < 1e-6 are skipped",
    "the library documents an integer ROI centre: 2D centre distance is compared with the distance of Roi.center, and Roi.center "
    "itself must be within one pixel of the true centre",
]
SIZES = [(1.0, 1.0, 1.0), (2.0, 4.0, 1.5), (0.05, 5.0, 1.0), (10.0, 10.0, 3.0)]
PLACEMENTS = ["identical", "nested", "overlap1", "overlap2", "overlap3", "touching", "disjoint"]
ZREL = ["same", "partial", "disjoint"]
_SEED = [0]


def worker_init():
    _SEED[0] = int(os.environ.get("VERIF_SEED", "0") or 0)


def yaws_a(tier):
    return [0.05, 0.9, -2.2, 3.0] if tier == "quick" else [0.05, 0.45, 0.9, 1.62, -0.7, -2.2, 3.0]


def yaws_b(tier):
    n = 7 if tier == "quick" else 14
    return [geom.wrap(k * 2 * math.pi / n + 0.11) for k in range(n)]


def units(tier, seed):
    ns = 3 if tier == "quick" else 4
    u = [dict(kind="box", sa=a, sb=b, tier=tier, base=k, ya=y) for a in range(ns) for b in range(ns) for k in range(2) for y in range(len(yaws_a(tier)))]
    u += [dict(kind="roi", lo=i, hi=i + 9) for i in range(0, 81, 9)]
    u.append(dict(kind="neartie"))
    for b in range(0, 24, 6):
        u.append(dict(kind="tilted_ego", lo=b, hi=b + 6))
    u.append(dict(kind="scale"))
    return u


def bounds(tier, seed):
    return {"sizes": 3 if tier == "quick" else 4, "yaw_a": len(yaws_a(tier)), "yaw_b": len(yaws_b(tier)), "placements": PLACEMENTS, "z_relations": ZREL,
            "base_positions": 2, "roi_pairs": 81 * 81, "motions": "rotations about ego {0.3,1.9,-2.7}, translation, map rendering x ego menu"}


def _place(kind, a, sb, yb):
    """-> (x, y, yaw, size) of box b relative to box a = (x, y, yaw, size)."""
    ax, ay, ayaw, sa = a
    if kind == "identical":
        return ax, ay, ayaw, sa
    if kind == "nested":
        s = (min(sb[0], sa[0]) * 0.3, min(sb[1], sa[0], sa[1]) * 0.3, sb[2])
        return ax, ay, yb, s
    if kind.startswith("overlap"):
        fx, fy = {"overlap1": (0.31, -0.17), "overlap2": (0.45, 0.38), "overlap3": (-0.22, 0.12)}[kind]
        dx, dy = geom.rot2(fx * sa[1], fy * sa[0], ayaw)
        return ax + dx, ay + dy, yb, sb
    if kind == "touching":
        dx, dy = geom.rot2(sa[1] / 2 + sb[1] / 2, 0.0, ayaw)
        return ax + dx, ay + dy, ayaw, sb
    reach = 0.5 * (math.hypot(sa[0], sa[1]) + math.hypot(sb[0], sb[1])) + 1.0
    dx, dy = geom.rot2(reach, 0.3, ayaw)
    return ax + dx, ay + dy, yb, sb


TILT_EGOS = [(40.0, -25.0, 30.0, 0.7, 0.05, -0.03), (-15.0, 60.0, -12.0, -2.0, -0.08, 0.04), (5.0, 5.0, 55.0, 3.0, 0.02, 0.09)]
NEARTIE_EPS = [1e-5, -1e-5, 2e-5, -2e-5, 6e-5, -6e-5, 3e-4, -3e-4]


def run_unit(unit, acc):
    if unit["kind"] == "tilted_ego":
        # map-frame boxes on level ground seen from an ego that stands 30 m higher / 12 m lower on a slope (pitch, roll): the nearest
        # side of the ground truth is still the one nearest in the ego's bird's-eye view
        for bearing in range(unit["lo"], unit["hi"]):
            for dist in (9.0, 17.0, 33.0):
                for gyaw in (0.0, 0.5, 1.1, 1.9, 2.6):
                    for ei in range(len(TILT_EGOS)):
                        check_case(dict(kind="tilted_ego", bearing=bearing, dist=dist, gyaw=gyaw, ego=ei), acc)
        return
    if unit["kind"] == "scale":
        # the same pair of boxes at 1, 1e-3, 1e-4 and 1e3 times the size (millimetre-sized and kilometre-sized boxes): IoU is scale free
        for pl in ("identical", "overlap1", "overlap2", "nested"):
            for yb in (0.0, 0.4, 1.2):
                for sc in (1e-3, 1e-4, 1e3):
                    check_case(dict(kind="scale", placement=pl, yb=yb, scale=sc), acc)
        return
    if unit["kind"] == "neartie":
        # ground truth seen diagonally: its 2nd and 3rd nearest corners are 3.5e-6 .. 1e-4 m apart in ego distance (not tied: the
        # nearest side is well defined), and the estimate deviates differently on the two candidate sides
        for eps in NEARTIE_EPS:
            for phi in (0.0, 0.7, -2.0, 3.0):
                for shape in (0, 1):
                    check_case(dict(kind="neartie", eps=eps, phi=phi, shape=shape), acc)
        return
    if unit["kind"] == "roi":
        rois = [(x, y, w, h) for x in (0, 3, 7) for y in (0, 3, 7) for w in (1, 4, 10) for h in (1, 4, 10)]
        for i in range(unit["lo"], unit["hi"]):
            for j in range(81):
                check_case(dict(kind="roi", a=list(rois[i]), b=list(rois[j])), acc)
        return
    jx, jy = G.jitter(_SEED[0])
    sa, sb = SIZES[unit["sa"]], SIZES[unit["sb"]]
    for base in [((8.0 + jx, 0.5 + jy), (-3.5, 6.0 + jx))[unit["base"]]]:
        for ya in [yaws_a(unit["tier"])[unit["ya"]]]:
            for yb in yaws_b(unit["tier"]):
                for pl in PLACEMENTS:
                    if pl in ("identical", "touching") and yb != yaws_b(unit["tier"])[0]:
                        continue  # these placements do not use yaw_b
                    for zr in ZREL:
                        check_case(dict(kind="box", base=list(base), ya=ya, yb=yb, sa=list(sa), sb=list(sb), placement=pl, z=zr), acc)


def _scores(e, g, tf=None):
    return (CenterDistanceMatching(e, g).value, PlaneDistanceMatching(e, g, transforms=tf).value, IOU2dMatching(e, g).value, IOU3dMatching(e, g).value)


def _ref_plane(e, g):
    """e, g = (x, y, yaw, w, l) in ego coordinates; None if the corner ranking is ambiguous."""
    ce, cg = geom.box_corners(*e), geom.box_corners(*g)
    order = sorted(range(4), key=lambda k: math.hypot(*cg[k]))
    d = [math.hypot(*cg[k]) for k in order]
    if d[2] - d[1] < 1e-6 or d[1] - d[0] < 0 :
        return None
    a, b = order[0], order[1]
    return math.sqrt(0.5 * ((ce[a][0] - cg[a][0]) ** 2 + (ce[a][1] - cg[a][1]) ** 2 + (ce[b][0] - cg[b][0]) ** 2 + (ce[b][1] - cg[b][1]) ** 2))


def check_case(case, acc):
    acc.case()

    def bad(sig, msg):
        acc.violation(sig, msg + " | " + str(case), case)

    if case["kind"] == "tilted_ego":
        ego = TILT_EGOS[case["ego"]]
        E = np.array(geom.pose_matrix(*ego))
        th = case["bearing"] * 2 * math.pi / 24 + 0.13
        gx, gy = ego[0] + case["dist"] * math.cos(th), ego[1] + case["dist"] * math.sin(th)
        gsz, esz = (2.0, 4.5, 1.5), (1.8, 5.6, 1.5)
        gyaw = case["gyaw"]
        ex, ey, eyaw = gx + 0.5 * math.cos(gyaw) - 0.2 * math.sin(gyaw), gy + 0.5 * math.sin(gyaw) + 0.2 * math.cos(gyaw), gyaw + 0.06
        g = G.mk3d(dict(x=gx, y=gy, z=0.0, yaw=gyaw, size=list(gsz), uuid="g", label="CAR"), "map", (0.0, 0.0, 0.0))
        e = G.mk3d(dict(x=ex, y=ey, z=0.0, yaw=eyaw, size=list(esz), uuid="e", label="CAR", score=0.9), "map", (0.0, 0.0, 0.0))
        tf = G.TransformDict(G.ego2map_matrix(ego)) if hasattr(G, "TransformDict") else None
        if tf is None:
            from perception_eval.common.transform import TransformDict as _TD
            tf = _TD(G.ego2map_matrix(ego))
        acc.exec()
        pd = PlaneDistanceMatching(e, g, transforms=tf).value
        acc.compared()
        cg, ce = geom.box_corners(gx, gy, gyaw, gsz[0], gsz[1]), geom.box_corners(ex, ey, eyaw, esz[0], esz[1])
        Einv = np.linalg.inv(E)
        bev = [math.hypot(*(Einv @ np.array([c[0], c[1], 0.0, 1.0]))[:2]) for c in cg]
        order = sorted(range(4), key=lambda k_: bev[k_])
        margin = bev[order[2]] - bev[order[1]]
        acc.state(("tilted_ego", case["ego"], case["bearing"], case["dist"], gyaw, margin > 1e-3), nontrivial=margin > 1e-3)
        if margin <= 1e-3:
            acc.skip("tie:corner-ranking")
            return
        a, b = order[0], order[1]
        want = math.sqrt(0.5 * ((ce[a][0] - cg[a][0]) ** 2 + (ce[a][1] - cg[a][1]) ** 2 + (ce[b][0] - cg[b][0]) ** 2 + (ce[b][1] - cg[b][1]) ** 2))
        acc.outcome(("tilted_ego", round(want, 2)))
        if abs(pd - want) > 1e-6:
            bad("plane-distance:tilted-ego", "map-frame pair seen from ego %s: plane distance %r, RMS over the two ground-truth corners nearest in the ego's bird's-eye view %r "
                "(corner distances %s)" % (ego, pd, want, [round(v, 3) for v in bev]))
        return
    if case["kind"] == "scale":
        sc = case["scale"]
        sa, sb = (2.0, 4.0, 1.5), (1.6, 3.0, 1.2)
        a0 = (8.0, 0.5, 0.3, sa)
        bx, by, byaw, sbb = _place(case["placement"], a0, sb, case["yb"])
        vals = []
        for k_ in (1.0, sc):
            ga = dict(x=a0[0] * k_, y=a0[1] * k_, z=0.4 * k_, yaw=a0[2], size=[v * k_ for v in sa], uuid="g", label="CAR")
            eb = dict(x=bx * k_, y=by * k_, z=0.4 * k_, yaw=byaw, size=[v * k_ for v in sbb], uuid="e", label="CAR", score=0.9)
            g, e = G.mk3d(ga), G.mk3d(eb)
            acc.exec(2)
            vals.append((IOU2dMatching(e, g).value, IOU3dMatching(e, g).value))
        acc.compared()
        acc.state(("scale", case["placement"], case["yb"], sc), nontrivial=0 < vals[0][0] < 1)
        acc.outcome(("scale", round(vals[0][0], 3)))
        if abs(vals[0][0] - vals[1][0]) > 1e-6 or abs(vals[0][1] - vals[1][1]) > 1e-6:
            bad("iou:scale-dependence", "IoU (BEV, 3D) = %s at full size and %s with every length multiplied by %g" % (vals[0], vals[1], sc))
        return
    if case["kind"] == "neartie":
        eps, phi = case["eps"], case["phi"]
        gsz, esz, shift = ((2.0, 4.0, 1.5), (2.0, 6.0, 1.5), 1.0) if case["shape"] == 0 else ((1.0, 3.0, 1.5), (1.4, 3.0, 1.5), 0.0)
        gx, gy = (5.0, 10.0 + eps) if case["shape"] == 0 else (4.0, 7.0 + eps)   # (7, 9+eps) / (3, 11+eps) resp. (5.5, 6.5+eps) / (2.5, 7.5+eps)
        if case["shape"] == 1:   # choose the centre so that the two candidate corners are equidistant at eps = 0: (x+1.5)^2+(y-.5)^2 = (x-1.5)^2+(y+.5)^2 -> y = 3x
            gx, gy = 2.5, 7.5 + eps
        rx, ry = geom.rot2(gx, gy, phi)
        ex, ey = geom.rot2(gx + shift, gy, phi)
        gspec = dict(x=rx, y=ry, z=0.0, yaw=phi, size=list(gsz), uuid="g", label="CAR")
        espec = dict(x=ex, y=ey, z=0.0, yaw=phi, size=list(esz), uuid="e", label="CAR", score=0.9)
        g, e = G.mk3d(gspec), G.mk3d(espec)
        acc.exec()
        pd = PlaneDistanceMatching(e, g).value
        acc.compared()
        want = _ref_plane((ex, ey, phi, esz[0], esz[1]), (rx, ry, phi, gsz[0], gsz[1]))
        cs = sorted(math.hypot(*c) for c in geom.box_corners(rx, ry, phi, gsz[0], gsz[1]))
        acc.state(("neartie", eps, phi, case["shape"], want is None), nontrivial=want is not None)
        acc.outcome(("neartie", None if want is None else round(want, 3)))
        if want is None:
            acc.skip("tie:corner-ranking")
        elif abs(pd - want) > 1e-9:
            bad("plane-distance:near-tie", "plane distance %r, RMS over the ground truth's two nearest corners %r (2nd / 3rd nearest corner distances %.9f / %.9f)" % (pd, want, cs[1], cs[2]))
        return
    if case["kind"] == "roi":
        a, b = case["a"], case["b"]
        ea = G.mk2d(dict(roi=a, uuid="a"))
        eb = G.mk2d(dict(roi=b, uuid="b"))
        acc.exec(4)
        iou, iou_r = IOU2dMatching(ea, eb).value, IOU2dMatching(eb, ea).value
        cd, cd_r = CenterDistanceMatching(ea, eb).value, CenterDistanceMatching(eb, ea).value
        # the same ROIs on objects that also carry a 3-D position (traffic lights do): 2D scores are those of the ROIs
        pa, pb = G.mk2d(dict(roi=a, uuid="a", pos=[1.0, 0.2, 0.0])), G.mk2d(dict(roi=b, uuid="b", pos=[1.5, 0.2, 0.0]))
        acc.exec(2)
        cdp, ioup = CenterDistanceMatching(pa, pb).value, IOU2dMatching(pa, pb).value
        if abs(cdp - cd) > 1e-12 or abs(ioup - iou) > 1e-12:
            bad("roi:position-changes-score", "ROI objects that also carry 3-D positions score distance %r / IoU %r, without positions %r / %r" % (cdp, ioup, cd, iou))
        acc.compared()
        ix = max(0, min(a[0] + a[2], b[0] + b[2]) - max(a[0], b[0]))
        iy = max(0, min(a[1] + a[3], b[1] + b[3]) - max(a[1], b[1]))
        inter = ix * iy
        want = inter / float(a[2] * a[3] + b[2] * b[3] - inter)
        if abs(iou - want) > 1e-9:
            bad("roi:iou", "IoU2D of ROIs = %r, true value %r" % (iou, want))
        if abs(iou - iou_r) > 1e-12 or abs(cd - cd_r) > 1e-12:
            bad("roi:asymmetric", "scores differ under argument swap: iou %r/%r distance %r/%r" % (iou, iou_r, cd, cd_r))
        if not (0.0 <= iou <= 1.0 + 1e-12):
            bad("roi:range", "IoU2D %r outside [0,1]" % iou)
        ca, cb = ea.roi.center, eb.roi.center
        for r, c in ((a, ca), (b, cb)):
            if abs(c[0] - (r[0] + r[2] / 2.0)) >= 1.0 or abs(c[1] - (r[1] + r[3] / 2.0)) >= 1.0:
                bad("roi:center", "Roi.center %s of %s is not within a pixel of the true centre" % (c, r))
        wantd = math.hypot(ca[0] - cb[0], ca[1] - cb[1])
        if abs(cd - wantd) > 1e-9:
            bad("roi:centre-distance", "2D centre distance %r, distance of the ROI centres %r" % (cd, wantd))
        if a == b and (abs(iou - 1.0) > 1e-12 or cd != 0.0):
            bad("roi:identical", "identical ROIs: IoU %r distance %r" % (iou, cd))
        acc.state(("roi", a[2], a[3], b[2], b[3], "0" if inter == 0 else ("1" if a == b else "p")), nontrivial=0 < inter and a != b)
        acc.outcome(("roi", round(iou, 3)))
        if acc.cases % 997 == 1:
            acc.sample(case)
        return

    sa, sb = tuple(case["sa"]), tuple(case["sb"])
    ax, ay = case["base"]
    a = (ax, ay, case["ya"], sa)
    bx, by, byaw, sbb = _place(case["placement"], a, sb, case["yb"])
    za = 0.4
    zb = {"same": za, "partial": za + 0.5 * min(sa[2], sbb[2]), "disjoint": za + sa[2] / 2 + sbb[2] / 2 + 0.3}[case["z"]]
    if case["placement"] == "identical":
        zb = za
    ga = dict(x=ax, y=ay, z=za, yaw=case["ya"], size=list(sa), uuid="g", label="CAR")
    eb = dict(x=bx, y=by, z=zb, yaw=byaw, size=list(sbb), uuid="e", label="CAR", score=0.9)
    g, e = G.mk3d(ga), G.mk3d(eb)
    acc.exec(12)
    cd, pd, i2, i3 = _scores(e, g)
    rcd, rpd, ri2, ri3 = _scores(g, e)
    if _scores(e, g) != (cd, pd, i2, i3):
        bad("not-deterministic", "scoring the same pair twice gives different values")
    acc.compared()
    A = (ax, ay, case["ya"], sa[0], sa[1])
    B = (bx, by, byaw, sbb[0], sbb[1])
    w2, inter = geom.iou_bev(B, A)
    w3 = geom.iou_3d(B, zb, sbb[2], A, za, sa[2])
    wcd = math.sqrt((ax - bx) ** 2 + (ay - by) ** 2 + (za - zb) ** 2)
    wpd = _ref_plane(B, A)
    ident = case["placement"] == "identical"
    if abs(cd - wcd) > 1e-9:
        bad("centre-distance", "centre distance %r, Euclidean distance of the centres %r" % (cd, wcd))
    if abs(i2 - w2) > 1e-9:
        bad("iou2d", "BEV IoU %r, true intersection-over-union %r" % (i2, w2))
    if abs(i3 - w3) > 1e-9:
        bad("iou3d", "3D IoU %r, true value %r" % (i3, w3))
    for nm, v in (("iou2d", i2), ("iou3d", i3)):
        if not (-1e-12 <= v <= 1.0 + 1e-9):
            bad("range:" + nm, "%s=%r outside [0,1]" % (nm, v))
    if i3 > i2 + 1e-9:
        bad("iou3d>iou2d", "3D IoU %r exceeds BEV IoU %r" % (i3, i2))
    if abs(cd - rcd) > 1e-9 or abs(i2 - ri2) > 1e-9 or abs(i3 - ri3) > 1e-9:
        bad("asymmetric", "scores change under argument swap: (%r,%r,%r) vs (%r,%r,%r)" % (cd, i2, i3, rcd, ri2, ri3))
    if pd < 0:
        bad("plane:negative", "plane distance %r < 0" % pd)
    if wpd is None:
        acc.skip("tie:corner-ranking")
    elif abs(pd - wpd) > 1e-9:
        bad("plane-distance", "plane distance %r, RMS over the ground truth's two nearest corners %r" % (pd, wpd))
    if ident:
        if abs(i2 - 1.0) > 1e-9 or abs(i3 - 1.0) > 1e-9 or cd != 0.0 or abs(pd) > 1e-9:
            bad("identical", "identical boxes: iou2d=%r iou3d=%r distance=%r plane=%r" % (i2, i3, cd, pd))
    if case["placement"] in ("touching", "disjoint") and (abs(i2) > 1e-9 or abs(i3) > 1e-9):
        bad("disjoint", "%s boxes: iou2d=%r iou3d=%r" % (case["placement"], i2, i3))
    if case["z"] == "disjoint" and not ident and abs(i3) > 1e-12:
        bad("disjoint:height", "boxes disjoint in height: iou3d=%r" % i3)
    # fields of the result object
    r = DynamicObjectWithPerceptionResult(e, g)
    acc.exec(4)
    got = (r.center_distance.value, r.plane_distance.value, r.iou_2d.value, r.iou_3d.value)
    if any(abs(x - y) > 1e-12 for x, y in zip(got, (cd, pd, i2, i3))):
        bad("result-fields", "DynamicObjectWithPerceptionResult scores %s differ from the matching classes %s" % (got, (cd, pd, i2, i3)))
    # common rigid motions ------------------------------------------------------------------------
    for phi in (0.3, 1.9, -2.7):
        def rot(s):
            x, y = geom.rot2(s["x"], s["y"], phi)
            return dict(s, x=x, y=y, yaw=s["yaw"] + phi)
        acc.exec(4)
        v = _scores(G.mk3d(rot(eb)), G.mk3d(rot(ga)))
        if abs(v[0] - cd) > 1e-9 or abs(v[2] - i2) > 1e-9 or abs(v[3] - i3) > 1e-9 or (wpd is not None and abs(v[1] - pd) > 1e-9):
            bad("invariance:rotation-about-ego", "scores %s after a common rotation by %s about the ego, %s before" % (v, phi, (cd, pd, i2, i3)))
    for tx, ty in ((3.0, -2.0), (-40.0, 25.0)):
        acc.exec(3)
        e2, g2 = G.mk3d(dict(eb, x=eb["x"] + tx, y=eb["y"] + ty)), G.mk3d(dict(ga, x=ga["x"] + tx, y=ga["y"] + ty))
        v = (CenterDistanceMatching(e2, g2).value, IOU2dMatching(e2, g2).value, IOU3dMatching(e2, g2).value)
        if abs(v[0] - cd) > 1e-9 or abs(v[1] - i2) > 1e-9 or abs(v[2] - i3) > 1e-9:
            bad("invariance:translation", "distance/IoU %s after a common translation, %s before" % (v, (cd, i2, i3)))
    # map-scale common translation: only the centre distance keeps 1e-6 precision at coordinates ~1e5
    acc.exec()
    far = (89571.0, 42301.0)
    vfar = CenterDistanceMatching(G.mk3d(dict(eb, x=eb["x"] + far[0], y=eb["y"] + far[1])), G.mk3d(dict(ga, x=ga["x"] + far[0], y=ga["y"] + far[1]))).value
    if abs(vfar - cd) > 1e-6:
        bad("invariance:far-translation", "centre distance %r after a common translation by %s, %r before" % (vfar, far, cd))
    # scores are a function of the two boxes, however the objects got their state: change the estimate's heading / size in place
    # (same position) after it has been scored once and compare with a freshly built object
    if case["placement"].startswith("overlap") and case["z"] == "same":
        import copy as _copy
        from pyquaternion import Quaternion as _Q
        from perception_eval.common.shape import Shape as _Shape, ShapeType as _ST
        e_live = G.mk3d(eb)
        _scores(e_live, g)
        new_yaw = byaw + 0.6
        e_live.state.orientation = _Q(axis=[0, 0, 1], angle=new_yaw)
        e_live.state.shape = _Shape(_ST.BOUNDING_BOX, (sbb[0] * 0.8, sbb[1] * 1.1, sbb[2]))
        e_copy = _copy.deepcopy(e_live)
        fresh = G.mk3d(dict(eb, yaw=new_yaw, size=[sbb[0] * 0.8, sbb[1] * 1.1, sbb[2]]))
        acc.exec(12)
        want = _scores(fresh, g)
        for nm, obj in (("mutated in place", e_live), ("deep copy", e_copy)):
            got2 = _scores(obj, g)
            if any(abs(x - y) > 1e-9 for x, y in zip(got2, want)):
                bad("stale-after-in-place-change", "scores of an object whose heading/size were changed in place (%s) are %s, a freshly built identical box gives %s" % (nm, got2, want))
        # the orientation is the rotation its quaternion denotes: elements as they come from a file (not of unit length, never
        # touched before the first scoring call) describe the same box
        for scale_q in (2.0, 0.37):
            e_raw, g_raw = G.mk3d(eb), G.mk3d(ga)
            e_raw.state.orientation = _Q(*(scale_q * math.cos(byaw / 2), 0.0, 0.0, scale_q * math.sin(byaw / 2)))
            g_raw.state.orientation = _Q(*(scale_q * math.cos(case["ya"] / 2), 0.0, 0.0, scale_q * math.sin(case["ya"] / 2)))
            acc.exec(8)
            for nm, pair in (("estimate", (e_raw, g)), ("ground truth", (e, g_raw))):
                got3 = _scores(*pair)
                if any(abs(x - y) > 1e-9 for x, y in zip(got3, (cd, pd, i2, i3))):
                    bad("non-unit-quaternion", "scores %s when the %s's orientation is given by quaternion elements of norm %s, %s with the unit "
                        "quaternion of the same rotation" % (got3, nm, scale_q, (cd, pd, i2, i3)))
        # positions held as float64 arrays (what the library's own frame-conversion helpers store): scoring is read-only and repeatable
        e_np, g_np = G.mk3d(eb), G.mk3d(ga)
        e_np.state.position = np.array(e_np.state.position, dtype=np.float64)
        g_np.state.position = np.array(g_np.state.position, dtype=np.float64)
        pe0, pg0 = e_np.state.position.copy(), g_np.state.position.copy()
        acc.exec(12)
        try:
            runs = [_scores(e_np, g_np), _scores(g_np, e_np), _scores(e_np, g_np)]
        except Exception as ex:  # noqa
            runs = None
            bad("array-position:raises", "scoring objects whose positions are float64 arrays raised %r" % (ex,))
        if runs is not None:
            if not (np.array_equal(e_np.state.position, pe0) and np.array_equal(g_np.state.position, pg0)):
                bad("array-position:object-modified", "scoring changed an object's position array: %s -> %s / %s -> %s" % (pe0, e_np.state.position, pg0, g_np.state.position))
            for nm, got4 in zip(("first", "swapped", "repeated"), runs):
                if any(abs(x - y) > 1e-9 for x, y in zip(got4, (cd, pd if nm != "swapped" else rpd, i2, i3))):
                    bad("array-position:scores", "%s scoring of objects with array positions gives %s, tuple positions give %s" % (nm, got4, (cd, pd, i2, i3)))
    for ego in G.ego_menu(_SEED[0])[1:]:
        acc.exec(4)
        tf = G.transforms(ego)
        v = _scores(G.mk3d(eb, "map", ego), G.mk3d(ga, "map", ego), tf)
        if abs(v[0] - cd) > 1e-6 or abs(v[2] - i2) > 1e-6 or abs(v[3] - i3) > 1e-6 or (wpd is not None and abs(v[1] - pd) > 1e-6):
            bad("invariance:map-rendering", "scores %s in the map frame (ego %s), %s in the ego frame" % (v, ego, (cd, pd, i2, i3)))
    bucket = 0 if w2 < 1e-12 else (3 if w2 > 1 - 1e-12 else (1 if w2 < 0.3 else 2))
    yclass = int(round(geom.adiff(case["ya"], byaw) / (math.pi / 8)))
    acc.state((tuple(sa), tuple(sb), case["placement"], case["z"], yclass, bucket), nontrivial=bucket in (1, 2) and yclass not in (0, 4, 8))
    acc.outcome((bucket, round(w2, 2)))
    if acc.cases % 1499 == 1:
        acc.sample(case)
