"""C08 - loosening a matching threshold never loses a TP and never lowers AP."""
import itertools
import math
import os

from perception_eval.common.evaluation_task import EvaluationTask
from perception_eval.common.label import AutowareLabel
from perception_eval.evaluation.matching import MatchingLabelPolicy, MatchingMode
from perception_eval.evaluation.matching.objects_filter import divide_objects, divide_objects_to_num, get_negative_objects, get_positive_objects
from perception_eval.evaluation.metrics.detection.ap import Ap
from perception_eval.evaluation.metrics.detection.map import Map
from perception_eval.evaluation.metrics.detection.tp_metrics import TPMetricsAp, TPMetricsAph
from perception_eval.evaluation.result.object_result import DynamicObjectWithPerceptionResult, get_object_results

from mc.gen import objects as G
from mc.props import _scenes as S

ID = "C08"
RULE = ("(a) every ranking of length <= 4 (thorough <= 5) over result prototypes {6 graded distance (or IoU) levels interleaving the "
        "threshold ladder, a wrong-heading correct result, GT-less, other-label} x ground-truth counts, evaluated at every threshold of "
        "the ladder (distance -1, 0, 0.1 .. 50 / IoU 1.0 .. 0.0) for both labels moving independently (component-wise order via "
        "single-coordinate steps); (b) matcher output of every scene sub-list pair (<=2 x <=2, ordinary ground truth only) x 3 policies along the ladder. Checked between consecutive ladder steps (transitivity gives all ordered pairs): TP set "
        "inclusion (identity), FN count non-increasing, AP/APH per label and mAP/mAPH non-decreasing, undefined stays undefined. "
        "state = (layer, mode, ranking/scene class, step at which something changes); non-trivial = some TP appears along the ladder")
ASSUMPTIONS = [
    "ordinary (non false-positive-labelled) ground truth only, as the statement demands; tolerance 1e-12 on AP differences",
]
# the strict end of the distance ladders goes beyond the attainable range (a negative bound is accepted and nothing satisfies it;
# IoU bounds outside [0, 1] are rejected by the library)
LAD = {"CENTERDISTANCE": [-1.0, 0.0, 0.1, 0.5, 1.0, 2.0, 4.0, 50.0], "PLANEDISTANCE": [-1.0, 0.0, 0.1, 0.5, 1.0, 2.0, 4.0, 50.0],
       "IOU2D": [1.0, 0.9, 0.7, 0.5, 0.3, 0.1, 0.0], "IOU3D": [1.0, 0.9, 0.7, 0.5, 0.3, 0.1, 0.0]}
DIST_LEVELS = [0.1, 0.4, 0.8, 1.5, 3.0, 10.0]
SYMS = ["d0", "d1", "d2", "d3", "d4", "d5", "h", "N", "I"]
SYMS6 = ["d0", "d2", "d3", "d4", "h", "N", "w"]
CAR, PED = AutowareLabel.CAR, AutowareLabel.PEDESTRIAN
_POOL = {}
_SEED = [0]


def worker_init():
    _SEED[0] = int(os.environ.get("VERIF_SEED", "0") or 0)


def _proto(sym, rank, label="CAR"):
    k = (sym, rank, label)
    if True:  # fresh objects for every case: results judged under several modes must not leak state between cases
        other = "PEDESTRIAN" if label == "CAR" else "CAR"
        x = 30.0 * rank
        e = G.mk3d(dict(x=x, y=2.0, yaw=0.3, label=label, score=round(0.97 - 0.05 * rank, 4), uuid="e%d" % rank, size=[2.0, 4.0, 1.5]))
        if sym == "N":
            g = None
        elif sym == "I":
            g = G.mk3d(dict(x=x + 0.1, y=2.0, yaw=0.3, label=other, uuid="g%d" % rank, size=[2.0, 4.0, 1.5]))
        elif sym == "h":
            g = G.mk3d(dict(x=x + 0.3, y=2.0, yaw=0.3 + 2.0, label=label, uuid="g%d" % rank, size=[2.0, 4.0, 1.5]))
        elif sym == "w":
            # a map-frame pair 0.8 m apart whose yaws lie on the two sides of +-pi (3.10 / -3.10: 0.083 rad apart)
            ego = (4.0, -2.0, 0.0)
            e = G.mk3d(dict(x=x, y=2.0, yaw=3.10, label=label, score=round(0.97 - 0.05 * rank, 4), uuid="e%d" % rank, size=[2.0, 4.0, 1.5]), "map", ego)
            g = G.mk3d(dict(x=x + 0.8, y=2.0, yaw=-3.10, label=label, uuid="g%d" % rank, size=[2.0, 4.0, 1.5]), "map", ego)
            return DynamicObjectWithPerceptionResult(e, g, transforms=G.transforms(ego))
        else:
            d = DIST_LEVELS[int(sym[1])]
            g = G.mk3d(dict(x=x + d, y=2.0, yaw=0.3 + 0.05 * int(sym[1]), label=label, uuid="g%d" % rank, size=[2.0, 4.0, 1.5]))
        return DynamicObjectWithPerceptionResult(e, g)


def units(tier, seed):
    u = []
    nch = 16 if tier == "quick" else 64
    for k in range(nch):
        u.append(dict(layer="a", L=3 if tier == "quick" else 4, syms=SYMS, grid=False, chunk=[k, nch]))
        u.append(dict(layer="a", L=4 if tier == "quick" else 5, only_len=True, syms=SYMS6, grid=False, chunk=[k, nch]))
    if tier == "thorough":
        for k in range(16):
            u.append(dict(layer="a", L=3, syms=SYMS, grid=True, chunk=[k, 16]))
    # long rankings (more than a thousand results of one label in one Ap): one early TP, a long run of GT-less results, late results that
    # become TPs only at looser thresholds
    for n in ((1003, 2008) if tier == "quick" else (1003, 1502, 2008, 3001)):
        u.append(dict(layer="long", n=n))
    # three target labels (two of them may hold exactly equal AP values), thresholds loosened together
    for k in range(4):
        u.append(dict(layer="three", chunk=[k, 4]))
    for pol in (("DEFAULT", "ALLOW_ANY") if tier == "quick" else S.POLICIES):
        for k in range(8):
            u.append(dict(layer="b", policy=pol, grid=tier != "quick", nest=8 if tier == "quick" else 10, chunk=[k, 8]))
    return u


def bounds(tier, seed):
    return {"ranking_length": 4 if tier == "quick" else 5, "symbols": SYMS, "ladders": LAD, "scene_sublists": "<=2 x <=2 of 10 x 7 (ordinary GT)"}


def run_unit(unit, acc):
    if unit["layer"] == "three":
        per_label = [seq for L in (1, 2) for seq in itertools.product(["d0", "d3", "N", "d5"], repeat=L)]
        k, n = unit["chunk"]
        for idx, (a, b, c) in enumerate(itertools.product(per_label, per_label[::2], per_label[::3])):
            if idx % n == k:
                check_case(dict(layer="three", seqs=[list(a), list(b), list(c)]), acc)
        return
    if unit["layer"] == "long":
        for tail in (["d3"], ["d2", "d4"], ["d3", "N", "d4"]):
            check_case(dict(layer="long", n=unit["n"], tail=tail), acc)
        return
    if unit["layer"] == "a":
        k, n = unit["chunk"]
        idx = 0
        for L in ([unit["L"]] if unit.get("only_len") else range(0, unit["L"] + 1)):
            for seq in itertools.product(unit["syms"], repeat=L):
                idx += 1
                if idx % n != k:
                    continue
                check_case(dict(layer="a", seq=list(seq), grid=unit["grid"]), acc)
    else:
        est, gt = S.pools(_SEED[0])
        gt = [g for g in gt if g["label"] != "FP"]
        est = est[:unit["nest"]]
        k, n = unit["chunk"]
        idx = 0
        for es in S.sublists(len(est), 2):
            for gs in S.sublists(len(gt), 2):
                idx += 1
                if idx % n != k:
                    continue
                check_case(dict(layer="b", policy=unit["policy"], ests=[est[i] for i in es], gts=[gt[j] for j in gs], grid=unit["grid"]), acc)


def _evaluate(res_by_label, all_res, gts, gcount, labels, mode, thr):
    tp, fp = get_positive_objects(all_res, labels, mode, thr)
    tn, fn = get_negative_objects(gts, all_res, labels, mode, thr) if gts is not None else ([], [])
    mp = Map({l: list(v) for l, v in res_by_label.items()}, gcount, labels, mode, thr)
    return dict(tp=[id(r) for r in tp], fn=len(fn), tn=len(tn), aps=[a.ap for a in mp.aps], aphs=[a.ap for a in mp.aphs], map=mp.map, maph=mp.maph)


def _mono(prev, cur, bad, what):
    if not set(prev["tp"]) <= set(cur["tp"]):
        bad("tp-lost", "a TP at the tighter threshold is no longer a TP at the looser one (%s)" % what)
    if cur["fn"] > prev["fn"]:
        bad("fn-increased", "FN count rises from %d to %d when loosening (%s)" % (prev["fn"], cur["fn"], what))
    for nm in ("aps", "aphs"):
        for li, (a, b) in enumerate(zip(prev[nm], cur[nm])):
            if (a == float("inf")) != (b == float("inf")):
                bad("definedness", "%s of label %d changes definedness %r -> %r (%s)" % (nm, li, a, b, what))
            elif a != float("inf") and b < a - 1e-12:
                bad("ap-decreased:" + nm, "%s of label %d drops from %r to %r when loosening (%s)" % (nm, li, a, b, what))
    for nm in ("map", "maph"):
        a, b = prev[nm], cur[nm]
        if (a == float("inf")) != (b == float("inf")):
            bad("definedness", "%s changes definedness %r -> %r (%s)" % (nm, a, b, what))
        elif a != float("inf") and b < a - 1e-12:
            bad("ap-decreased:" + nm, "%s drops from %r to %r when loosening (%s)" % (nm, a, b, what))


def _walk(case, res_by_label, all_res, gts, gcount, labels, mode, lad, acc, bad):
    """walk the 2-label threshold grid along single-coordinate loosening steps (covers the component-wise order)."""
    n = len(lad)
    cache = {}

    def ev(i, j):
        if (i, j) not in cache:
            acc.exec()
            cache[(i, j)] = _evaluate(res_by_label, all_res, gts, gcount, labels, mode, [lad[i], lad[j]])
        return cache[(i, j)]

    changes = 0
    mid = 2
    cells = [(i, j) for i in range(n) for j in range(n)] if case.get("grid") else [(i, mid) for i in range(n)] + [(mid, j) for j in range(n)]
    full = bool(case.get("grid"))
    for i, j in cells:
        if True:
            cur = ev(i, j)
            if not full and j != mid:
                # chain over the pedestrian threshold with the car threshold fixed
                if j + 1 < n:
                    nx = ev(i, j + 1)
                    acc.compared()
                    _mono(cur, nx, bad, "pedestrian threshold %s -> %s, car %s" % (lad[j], lad[j + 1], lad[i]))
                    changes += len(nx["tp"]) > len(cur["tp"])
                continue
            if not full and i != mid:
                if i + 1 < n:
                    nx = ev(i + 1, j)
                    acc.compared()
                    _mono(cur, nx, bad, "car threshold %s -> %s, pedestrian %s" % (lad[i], lad[i + 1], lad[j]))
                    changes += len(nx["tp"]) > len(cur["tp"])
                continue
            if i + 1 < n:
                nx = ev(i + 1, j)
                acc.compared()
                _mono(cur, nx, bad, "car threshold %s -> %s, pedestrian %s" % (lad[i], lad[i + 1], lad[j]))
                changes += len(nx["tp"]) > len(cur["tp"])
            if j + 1 < n:
                nx = ev(i, j + 1)
                acc.compared()
                _mono(cur, nx, bad, "pedestrian threshold %s -> %s, car %s" % (lad[j], lad[j + 1], lad[i]))
                changes += len(nx["tp"]) > len(cur["tp"])
    return changes, ev(0, 0), ev(n - 1, n - 1)


def _check_three(case, acc, bad):
    from perception_eval.common.label import AutowareLabel
    from perception_eval.evaluation.metrics.detection.map import Map
    labels = [CAR, PED, AutowareLabel.BICYCLE]
    names = ["CAR", "PEDESTRIAN", "BICYCLE"]
    res = {lab: [[_proto(sy, 3 * i + li, names[li]) for i, sy in enumerate(seq)]] for li, (lab, seq) in enumerate(zip(labels, case["seqs"]))}
    gcount = {lab: max(1, sum(1 for sy in seq if sy != "N")) for lab, seq in zip(labels, case["seqs"])}
    prev = None
    for thr in LAD["CENTERDISTANCE"]:
        acc.exec()
        mp = Map({l: [list(v[0])] for l, v in res.items()}, gcount, labels, MatchingMode.CENTERDISTANCE, [thr] * 3)
        acc.compared()
        aps = [a.ap for a in mp.aps]
        fin = [a for a in aps if a != float("inf")]
        if fin and abs(mp.map - sum(fin) / len(fin)) > 1e-12:
            bad("three:map-not-mean", "mAP %r over three labels with APs %s is not their mean %r (threshold %s)" % (mp.map, aps, sum(fin) / len(fin), thr))
        cur = dict(tp=[], fn=0, tn=0, aps=aps, aphs=[a.ap for a in mp.aphs], map=mp.map, maph=mp.maph)
        if prev is not None:
            _mono(prev, cur, bad, "three labels, all thresholds %s -> %s" % (prev_thr, thr))
        prev, prev_thr = cur, thr
        acc.state(("three", tuple(map(tuple, case["seqs"])), thr, tuple(round(a, 6) for a in aps)), nontrivial=len(set(fin)) < len(fin))
    acc.outcome(("three", round(prev["map"], 4)))


def _check_long(case, acc, bad):
    from mc.ref import ap as RAP
    from perception_eval.evaluation.metrics.detection.ap import Ap
    from perception_eval.evaluation.metrics.detection.tp_metrics import TPMetricsAp, TPMetricsAph
    n, tail = case["n"], case["tail"]
    syms = ["d0"] + ["N"] * (n - 1 - len(tail)) + list(tail)
    res = []
    for i, sy in enumerate(syms):
        if sy == "N":   # GT-less result (cheap to build: no matching scores)
            e = G.mk3d(dict(x=30.0 + 0.01 * i, y=2.0, yaw=0.3, label="CAR", score=0.99 - 0.0004 * i, uuid="e%d" % i, size=[2.0, 4.0, 1.5]))
            res.append(DynamicObjectWithPerceptionResult(e, None))
        else:
            r = _proto(sy, i)
            r.estimated_object.semantic_score = 0.99 - 0.0004 * i
            res.append(r)
    gcount = 1 + len([t for t in tail if t != "N"])
    prev = None
    for thr in (0.25, 0.5, 1.0, 2.0, 4.0, 50.0):
        vals = {}
        for nm, mcls in (("AP", TPMetricsAp), ("APH", TPMetricsAph)):
            acc.exec()
            a = Ap(mcls(), [list(res)], gcount, [CAR], MatchingMode.CENTERDISTANCE, [thr])
            vals[nm] = a.ap
            if nm == "AP":
                seq = [1 if (sy != "N" and DIST_LEVELS[int(sy[1])] < thr) else 0 for sy in syms]
                want = float(RAP.ap_from_ranking(seq, gcount))
                if abs(a.ap - want) > 1e-9:
                    bad("long:ap-value", "AP of a %d-result ranking at threshold %s is %r, the PR area is %r" % (n, thr, a.ap, want))
        acc.compared()
        if prev is not None:
            for nm in vals:
                if vals[nm] < prev[nm] - 1e-12:
                    bad("ap-decreased:long:" + nm, "%s of a %d-result ranking drops from %r to %r when the threshold is loosened to %s" % (nm, n, prev[nm], vals[nm], thr))
        prev = vals
        acc.state(("long", n, tuple(tail), thr, round(vals["AP"], 6)), nontrivial=0 < vals["AP"] < 1)
    acc.outcome(("long", round(prev["AP"], 4)))


def check_case(case, acc):
    """the SAME result objects are judged under all four matching modes (as MetricsScore does), each along its ladder."""
    acc.case()
    labels = [CAR, PED]

    def bad(sig, msg):
        acc.violation(sig, msg + " | " + str({k: v for k, v in case.items() if k not in ("ests", "gts")}), case)

    if case["layer"] == "long":
        return _check_long(case, acc, bad)
    if case["layer"] == "three":
        return _check_three(case, acc, bad)
    if case["layer"] == "a":
        seq = case["seq"]
        car = [_proto(s, i, "CAR") for i, s in enumerate(seq)]
        ped = [_proto(s, i + 8, "PEDESTRIAN") for i, s in enumerate(reversed(seq))][:2]
        nT = sum(1 for s in seq if s[0] in "dh")
        tot = 0
        for mname in ("CENTERDISTANCE", "IOU2D", "PLANEDISTANCE", "IOU3D"):
            mode, lad = MatchingMode[mname], LAD[mname]
            for gc in (sorted({max(1, nT), nT + 1}) if mname == "CENTERDISTANCE" else [max(1, nT)]):
                ch, first, last = _walk(case, {CAR: car, PED: ped}, car + ped, None, {CAR: gc, PED: 2}, labels, mode, lad, acc,
                                        lambda s_, m_, mn=mname: bad(s_, m_ + " mode=" + mn))
                tot += ch
        # the same TP-metric instances reused along the ladder (what a caller looping over thresholds does): AP / APH stay monotone
        for mname in ("CENTERDISTANCE", "IOU2D"):
            mode, lad = MatchingMode[mname], LAD[mname]
            tp_ap, tp_aph = TPMetricsAp(), TPMetricsAph()
            prev = None
            for t in lad:
                acc.exec(2)
                cur = (Ap(tp_ap, [list(car)], max(1, nT), [CAR], mode, [t]).ap, Ap(tp_aph, [list(car)], max(1, nT), [CAR], mode, [t]).ap)
                if prev is not None:
                    acc.compared()
                    for nm, a_, b_ in (("AP", prev[0], cur[0]), ("APH", prev[1], cur[1])):
                        if (a_ == float("inf")) != (b_ == float("inf")) or (a_ != float("inf") and b_ < a_ - 1e-12):
                            bad("ap-decreased:shared-metric-instance:" + nm, "%s with a reused TP-metric instance drops from %r to %r when loosening to %s (mode %s)" % (nm, a_, b_, t, mname))
                prev = cur
        acc.state(("a", tuple(seq), tot > 0), nontrivial=tot > 0)
        acc.outcome(("a", len(first["tp"]), len(last["tp"])))
        if acc.cases % 401 == 1:
            acc.sample(case)
    else:
        ests = [G.mk3d(s) for s in case["ests"]]
        gts = [G.mk3d(s) for s in case["gts"]]
        res = get_object_results(EvaluationTask.DETECTION, ests, gts, labels, MatchingLabelPolicy[case["policy"]])
        tot = 0
        summ = []
        for mname in ("CENTERDISTANCE", "IOU2D", "PLANEDISTANCE", "IOU3D"):
            mode, lad = MatchingMode[mname], LAD[mname]
            by = divide_objects(res, labels)
            gcount = divide_objects_to_num(gts, labels)
            ch, first, last = _walk(case, by, res, gts, gcount, labels, mode, lad, acc, lambda s_, m_, mn=mname: bad(s_, m_ + " mode=" + mn))
            tot += ch
            summ.append((len(first["tp"]), len(last["tp"]), first["fn"], last["fn"]))
        acc.state(("b", case["policy"], tuple(summ), tot > 0), nontrivial=tot > 0)
        acc.outcome(("b", tuple(summ)))
        if acc.cases % 503 == 1:
            acc.sample(case)
