"""C17 - nearest-frame lookup within tolerance; exact interpolation."""
import itertools
import math
import os

import perception_eval.common.dataset as ds
from perception_eval.common.schema import FrameID

from mc.gen import frames as F
from mc.gen import objects as G
from mc.ref import geom

ID = "C17"
RULE = ("timelines of 1..3 frames at {0, 100, 250} ms (thorough: also 4 frames, + 400 ms) x every query in a menu of 11-13 times "
        "(before, on, between, after frames; mid-points) x tolerances {0, 40, 75, 200} ms x all presence patterns of objects "
        "{A,B,C} per frame x objects in BASE_LINK, MAP or the frame of a tilted ego (roll/pitch/height) x quaternion sign flips, with yaw pairs across +-pi and moving ego poses; "
        "seams get_now_frame, get_interpolated_now_frame, manager.get_ground_truth_now_frame; every query is issued twice on the "
        "same list. state = (n frames, presence pattern class, frame kind, query position class, tolerance class, outcome kind); "
        "non-trivial = a neighbour is gated by the tolerance or an object appears/disappears between the neighbours")
ASSUMPTIONS = [
    "every object carries a velocity (what the loader produces); queries whose distance to a frame equals the tolerance exactly "
    "(other than 0) are skipped: 'within' is not pinned to <= or <; equidistant neighbours accept either answer",
    "poses are compared in global coordinates through the returned frame's own ego->map transform, tolerance 1e-6",
]
TIMES = [0, 100000, 250000, 400000]
EGO = [(0.0, 0.0, 0.0), (10.0, 2.0, 0.5), (25.0, 5.0, -2.9), (31.0, 4.0, 2.9)]
POSE = {"A": [(1.0, 0.0, 3.0), (2.0, 1.0, -3.0), (4.0, 1.0, -2.0), (5.0, 2.0, 3.1)],
        "B": [(5.0, 5.0, 0.1), (6.0, 5.0, 0.4), (7.0, 7.0, 0.9), (7.5, 8.0, 1.4)],
        "C": [(-3.0, 2.0, -1.0), (-3.0, 3.0, 1.5), (-2.0, 3.0, 2.0), (-1.0, 3.0, -3.0)]}
QUERIES = [-120000, -50000, 0, 30000, 50000, 70000, 100000, 175000, 250000, 300000, 400000]
TOLS = [0, 40000, 75000, 200000]
_SEED = [0]


def worker_init():
    _SEED[0] = int(os.environ.get("VERIF_SEED", "0") or 0)


def units(tier, seed):
    u = []
    for nfr in ((1, 2, 3) if tier == "quick" else (1, 2, 3, 4)):
        for frame in ("base_link", "map", "base_link_tilt"):
            for neg in (False, True):
                if frame == "base_link_tilt" and (neg or nfr == 1):
                    continue
                pats = list(itertools.product(itertools.product((0, 1), repeat=nfr), repeat=3))
                if nfr >= 3:
                    pats = [p for p in pats if sum(map(sum, p)) >= nfr + 1]
                if nfr == 4:
                    pats = [p for p in pats if all(any(p[o][k] for o in range(3)) for k in range(4))][::3]
                nch = 1 if nfr < 3 else (8 if nfr == 3 else 16)
                for k in range(nch):
                    u.append(dict(nfr=nfr, frame=frame, neg=neg, pats=[list(map(list, p)) for p in pats[k::nch]]))
                # (see below for timelines with repeated timestamps)
                # the same timeline at UTM-scale global coordinates (objects 1-2 m per frame at |x|, |y| of several 1e5 m)
                if nfr == 2 and frame != "base_link_tilt" and not neg:
                    u.append(dict(nfr=nfr, frame=frame, neg=neg, far=True, pats=[list(map(list, p)) for p in pats]))
                    # instances whose annotated category differs between the samples (same uuid)
                    u.append(dict(nfr=nfr, frame=frame, neg=neg, relabel=True, pats=[list(map(list, p)) for p in pats]))
    for d in range(len(DUP_TIMES)):
        u.append(dict(dup=d))
    for nfr in (2, 3):
        pats = [p for p in itertools.product(itertools.product((0, 1), repeat=nfr), repeat=3) if sum(map(sum, p)) >= nfr + 1]
        for fr_ in ("base_link", "map"):
            for neg in (False, True):
                # small heading steps (quaternions of consecutive frames nearly equal up to sign)
                u.append(dict(nfr=nfr, frame=fr_, neg=neg, smallstep=True, pats=[list(map(list, p)) for p in pats[(1 if neg else 0)::3]]))
            # objects that carry their past poses (what the loader produces for the tracking task)
            u.append(dict(nfr=nfr, frame=fr_, neg=False, paths=True, pats=[list(map(list, p)) for p in pats[2::3]]))
        for mix in (0, 1):
            u.append(dict(nfr=nfr, frame="mixed", neg=False, mix=mix, pats=[list(map(list, p)) for p in pats[mix::4]]))
    return u


def bounds(tier, seed):
    return {"frames": "1..%d" % (3 if tier == "quick" else 4), "times_us": TIMES, "queries": "menu of %d + seed shift" % len(QUERIES),
            "tolerances_us": TOLS, "objects": 3, "frame_kinds": ["base_link", "map"], "quaternion_sign_flip": True}


def queries(seed, nfr):
    shift = [0, 1000, -2000, 3000, 500][seed % 5]
    q = [x + (shift if x not in TIMES else 0) for x in QUERIES]
    if nfr == 4:
        q += [325000 + shift, 480000]
    return q


def run_unit(unit, acc):
    if unit.get("dup") is not None:
        qs = [-60000, 0, 20000, 50000, 60000, 100000, 130000, 175000, 200000, 230000, 250000, 300000]
        if unit["dup"] < 2:   # lists spanning more than 2**31 us: queries around every frame of the late recordings
            qs = sorted({t_ + d_ for t_ in DUP_TIMES[unit["dup"]] if t_ > 2 ** 30 for d_ in (-43000, 0, 43000, 60000)} | {2 ** 31 + 5, 2 ** 32 + 3000, 1000000 + 43000})
        check_case(dict(dup=unit["dup"], queries=qs, tols=TOLS), acc)
        return
    for pat in unit["pats"]:
        check_case(dict(nfr=unit["nfr"], frame=unit["frame"], neg=unit["neg"], pres=pat, queries=queries(_SEED[0], unit["nfr"]), tols=TOLS, far=bool(unit.get("far")), relabel=bool(unit.get("relabel")), mix=unit.get("mix", 0), smallstep=bool(unit.get("smallstep")),
                        paths=bool(unit.get("paths"))), acc)


FAR = (-400000.0, 300000.0)   # UTM-scale global coordinates


SMALL = {"A": [3.13, -3.13, 3.135, -3.139], "B": [-1.5708, -1.58, -1.56, -1.5709], "C": [-3.12, 3.138, -3.135, 3.12]}


def _P(u, k, case=None):
    x, y, yaw = POSE[u][k]
    if case is not None and case.get("smallstep"):   # headings that change by 1-2 degrees per frame, across +-pi (A, C) / near -pi/2 (B)
        yaw = SMALL[u][k]
    if case is not None and case.get("far"):
        return (x + FAR[0], y + FAR[1], yaw)
    return (x, y, yaw)


def _E(k, case=None):
    e = EGO[k]
    if case is not None and case.get("far"):
        return (e[0] + FAR[0], e[1] + FAR[1], e[2])
    return e


def _tilt_ego(k):
    e = EGO[k]
    return (e[0], e[1], 0.4 + 0.1 * k, e[2], 0.3 - 0.05 * k, -0.1 + 0.04 * k)


def _obj_tilt(u, k):
    """object given in the frame of a tilted ego (roll / pitch / height): local pose = E^-1 * global planar pose."""
    import numpy as np
    from pyquaternion import Quaternion
    from perception_eval.common.label import AutowareLabel, Label
    from perception_eval.common.object import DynamicObject
    from perception_eval.common.shape import Shape, ShapeType
    x, y, yaw = POSE[u][k]
    E = np.array(geom.pose_matrix(*_tilt_ego(k)))
    O = np.array(geom.pose_matrix(x, y, 0.0, yaw))
    Lm = np.linalg.inv(E) @ O
    return DynamicObject(TIMES[k], FrameID.BASE_LINK, tuple(float(v) for v in Lm[:3, 3]), Quaternion(matrix=Lm[:3, :3], atol=1e-6), Shape(ShapeType.BOUNDING_BOX, (1.0, 2.0, 1.0)),
                         (1.0, 0.0, 0.0), 1.0, Label(AutowareLabel.CAR, "car", []), pointcloud_num=5, uuid=u)


def _obj(u, k, frame, neg, case=None):
    if frame == "base_link_tilt":
        return _obj_tilt(u, k)
    x, y, yaw = _P(u, k, case)
    lab = "CAR"
    if case is not None and case.get("relabel"):   # an instance whose annotated category changes from sample to sample keeps its id
        lab = {"A": ["PEDESTRIAN", "BICYCLE", "PEDESTRIAN", "MOTORBIKE"], "B": ["CAR", "TRUCK", "BUS", "CAR"], "C": ["UNKNOWN", "CAR", "CAR", "UNKNOWN"]}[u][k]
    if frame == "base_link":
        x, y, yaw = geom.map_to_ego(x, y, yaw, _E(k, case))
    return G.mk3d(dict(x=x, y=y, yaw=yaw, qneg=neg, uuid=u, label=lab, vel=[1.0, 0.0, 0.0], size=[1.0, 2.0, 1.0], pts=5, t=TIMES[k]), "base_link", None) \
        if frame == "base_link" else G.mk3d(dict(x=x, y=y, yaw=yaw, qneg=neg, uuid=u, label=lab, vel=[1.0, 0.0, 0.0], size=[1.0, 2.0, 1.0], pts=5, t=TIMES[k]), "map", (0.0, 0.0, 0.0))


def _frames(case):
    nfr = case["nfr"]
    out = []
    for k in range(nfr):
        if case.get("paths"):
            objs = []
            for ui, u in enumerate("ABC"):
                if not case["pres"][ui][k]:
                    continue
                o = _obj(u, k, case["frame"], False, case)
                past = [_obj(u, j, case["frame"], False, case) for j in range(k) if case["pres"][ui][j]]
                if past:
                    from perception_eval.common.object import DynamicObject
                    o = DynamicObject(o.unix_time, o.frame_id, o.state.position, o.state.orientation, o.state.shape, o.state.velocity, o.semantic_score, o.semantic_label,
                                      pointcloud_num=o.pointcloud_num, uuid=o.uuid, tracked_positions=[q_.state.position for q_ in past],
                                      tracked_orientations=[q_.state.orientation for q_ in past], tracked_shapes=[q_.state.shape for q_ in past],
                                      tracked_twists=[q_.state.velocity for q_ in past])
                objs.append(o)
        elif case["frame"] == "mixed":   # one frame holding ego-frame and map-frame objects side by side
            objs = [_obj(u, k, "base_link" if (ui + case.get("mix", 0)) % 2 == 0 else "map", False, case) for ui, u in enumerate("ABC") if case["pres"][ui][k]]
        else:
            objs = [_obj(u, k, case["frame"], case["neg"] and k == 1, case) for ui, u in enumerate("ABC") if case["pres"][ui][k]]
        out.append(F.frame_gt(objs, _tilt_ego(k) if case["frame"] == "base_link_tilt" else _E(k, case), TIMES[k], str(k)))
    return out


def _gpose(o, fr):
    if o.frame_id == FrameID.MAP or o.frame_id == "map":
        p = o.state.position
        return (p[0], p[1]), o.state.orientation.yaw_pitch_roll[0]
    M = fr.transforms[(FrameID.BASE_LINK, FrameID.MAP)]
    p, r = M.transform(o.state.position, o.state.orientation)
    return (p[0], p[1]), r.yaw_pitch_roll[0]


def _snap(frames):
    return [(id(f), f.unix_time, [(id(o), o.uuid, tuple(o.state.position), tuple(o.state.orientation.q), str(o.frame_id)) for o in f.objects]) for f in frames]


_B0 = 2 ** 32 + 960000
DUP_TIMES = [[i_ * 100000 for i_ in range(11)] + [_B0 + j_ * 100000 for j_ in range(3)],
             [0, 100000, 2 ** 31 + 150000, 2 ** 31 + 250000, 2 ** 33 + 70000],
             [0, 0, 100000, 200000], [0, 100000, 100000, 250000], [0, 100000, 250000, 250000], [0, 0, 0, 100000], [50000, 50000]]


def _check_dup(case, acc):
    """nearest-frame lookup on a time-ordered list in which two (or three) consecutive frames carry the same timestamp."""
    times = DUP_TIMES[case["dup"]]
    frames = []
    for k, t in enumerate(times):
        o = G.mk3d(dict(x=1.0 + k, y=0.5, yaw=0.1 * k, uuid="D%d" % k, label="CAR", vel=[1.0, 0.0, 0.0], size=[1.0, 2.0, 1.0], pts=5, t=t), "base_link", None)
        frames.append(F.frame_gt([o], EGO[k % len(EGO)], t, str(k)))
    mgr = F.manager("detection", "base_link")
    saved = mgr.ground_truth_frames
    mgr.ground_truth_frames = frames
    try:
        for q in case["queries"]:
            for tol in case["tols"]:
                dts = [abs(q - t) for t in times]
                m = min(dts)
                for rep in (0, 1):
                    acc.exec()
                    near = ds.get_now_frame(frames, q, tol) if rep == 0 else mgr.get_ground_truth_now_frame(q, tol, False)
                    acc.compared()
                    one = dict(case, queries=[q], tols=[tol])
                    if m == tol and tol != 0:
                        acc.skip("boundary:tolerance")
                    elif m > tol:
                        if near is not None:
                            acc.violation("nearest:should-be-none", "frame times %s, query %d, tolerance %d: returned frame t=%s, the closest is %d us away" % (times, q, tol, near.unix_time, m), one)
                    elif near is None:
                        acc.violation("nearest:missing", "frame times %s, query %d, tolerance %d: nothing returned although a frame is %d us away" % (times, q, tol, m), one)
                    elif not any(near is f for f in frames) or abs(q - near.unix_time) != m:
                        acc.violation("nearest:wrong-frame", "frame times %s, query %d, tolerance %d: returned frame t=%s, the closest is %d us away" % (times, q, tol, near.unix_time, m), one)
                    acc.state(("dup", case["dup"], q, tol, None if near is None else near.unix_time), nontrivial=m <= tol)
    finally:
        mgr.ground_truth_frames = saved


def check_case(case, acc):
    acc.case()
    if case.get("dup") is not None:
        return _check_dup(case, acc)
    frames = _frames(case)
    nfr = case["nfr"]
    times = TIMES[:nfr]
    snap0 = _snap(frames)
    if acc.cases % 173 == 1:
        acc.sample(dict(case, queries=case["queries"][:3]))
    pres = case["pres"]
    pclass = tuple(sorted(tuple(p) for p in pres))
    mgr = F.manager("detection", "base_link")
    saved = mgr.ground_truth_frames
    mgr.ground_truth_frames = frames
    try:
        for q in case["queries"]:
            for tol in case["tols"]:
                one = dict(case, queries=[q], tols=[tol])
                qclass = ("before" if q < times[0] else "after" if q > times[-1] else "on" if q in times else "between")

                def bad(sig, msg):
                    acc.violation(sig, msg + " | times=%s query=%d tol=%d frame=%s pres=%s" % (times, q, tol, case["frame"], pres), one)

                # ---- nearest ------------------------------------------------------------------
                dts = [abs(q - t) for t in times]
                m = min(dts)
                for rep in (0, 1):
                    acc.exec()
                    near = ds.get_now_frame(frames, q, tol) if rep == 0 else mgr.get_ground_truth_now_frame(q, tol, False)
                    acc.compared()
                    if m == tol and tol != 0:
                        acc.skip("boundary:tolerance")
                    elif m > tol:
                        if near is not None:
                            bad("nearest:should-be-none", "nearest lookup returned frame t=%s but the closest frame is %d us away" % (near.unix_time, m))
                    else:
                        if near is None:
                            bad("nearest:missing", "nearest lookup returned nothing although a frame is %d us away" % m)
                        elif not any(near is f for f in frames) or abs(q - near.unix_time) != m:
                            bad("nearest:wrong-frame", "nearest lookup returned frame t=%s, closest is %d us away" % (near.unix_time, m))
                # ---- interpolated -------------------------------------------------------------
                bi = max([k for k in range(nfr) if times[k] <= q], default=None)
                ai = min([k for k in range(nfr) if times[k] > q], default=None)
                for rep in (0, 1):
                    acc.exec()
                    got = ds.get_interpolated_now_frame(frames, q, tol) if rep == 0 else mgr.get_ground_truth_now_frame(q, tol, True)
                    acc.compared()
                    if (bi is not None and q - times[bi] == tol and tol != 0) or (ai is not None and times[ai] - q == tol and tol != 0):
                        acc.skip("boundary:tolerance")
                        continue
                    b_ok = bi is not None and q - times[bi] <= tol
                    a_ok = ai is not None and times[ai] - q <= tol
                    kind = "none" if not (b_ok or a_ok) else "before" if not a_ok else "after" if not b_ok else "both"
                    gated = (bi is not None and not b_ok) or (ai is not None and not a_ok)
                    if rep == 0:
                        appear = kind == "both" and any(pres[o][bi] != pres[o][ai] for o in range(3))
                        acc.state((nfr, pclass if nfr < 3 else None, case["frame"], case["neg"], qclass, tol, kind, appear), nontrivial=gated or appear)
                        acc.outcome((kind, qclass))
                    if kind == "none":
                        if got is not None:
                            bad("interp:should-be-none", "no neighbour within tolerance but a frame (t=%s) was returned" % got.unix_time)
                    elif kind == "before":
                        if got is not frames[bi]:
                            bad("interp:should-be-preceding", "only the preceding frame is within tolerance; got %s" % (None if got is None else got.unix_time))
                    elif kind == "after":
                        if got is not frames[ai]:
                            bad("interp:should-be-following", "only the following frame is within tolerance; got %s" % (None if got is None else got.unix_time))
                    else:
                        if got is None or got.unix_time != q:
                            bad("interp:stamp", "both neighbours within tolerance: expected a frame stamped %d, got %s" % (q, None if got is None else got.unix_time))
                            continue
                        al = (q - times[bi]) / float(times[ai] - times[bi])
                        ub = {o.uuid for o in frames[bi].objects}
                        ua = {o.uuid for o in frames[ai].objects}
                        go = {}
                        for o in got.objects:
                            go.setdefault(o.uuid, []).append(o)
                        if set(go) != ub | ua or any(len(v) != 1 for v in go.values()):
                            bad("interp:object-set", "interpolated frame holds %s, neighbours hold %s and %s" % (sorted((k, len(v)) for k, v in go.items()), sorted(ub), sorted(ua)))
                            continue
                        for u, (o,) in go.items():
                            p, y = _gpose(o, got)
                            if u in ub and u in ua:
                                (xb, yb_, hb), (xa, ya_, ha) = _P(u, bi, case), _P(u, ai, case)
                                ep = (xb + al * (xa - xb), yb_ + al * (ya_ - yb_))
                                eyaw = hb + al * geom.wrap(ha - hb)
                            else:
                                k = bi if u in ub else ai
                                ep, eyaw = _P(u, k, case)[:2], _P(u, k, case)[2]
                            if abs(p[0] - ep[0]) > 1e-6 or abs(p[1] - ep[1]) > 1e-6:
                                bad("interp:position", "object %s at %s, expected %s (alpha=%.4f)" % (u, p, ep, al))
                            if geom.adiff(y, eyaw) > 1e-6:
                                bad("interp:yaw", "object %s yaw %.6f, expected %.6f (shortest arc, alpha=%.4f)" % (u, y, geom.wrap(eyaw), al))
        if _snap(frames) != snap0:
            acc.violation("lookup-mutates-frames", "the loaded frame list was modified by lookups", dict(case))
    finally:
        mgr.ground_truth_frames = saved
