"""C09 - heading comparisons use the true minimal yaw difference."""
import math
import os

from perception_eval.common.label import AutowareLabel
from perception_eval.evaluation.matching import MatchingMode
from perception_eval.evaluation.matching import MatchingLabelPolicy
from perception_eval.evaluation.metrics.detection.ap import Ap
from perception_eval.evaluation.metrics.detection.tp_metrics import TPMetricsAph
from perception_eval.evaluation.result.object_result import DynamicObjectWithPerceptionResult

from mc.gen import objects as G
from mc.ref import geom

ID = "C09"
RULE = ("all ordered pairs of 24 yaw angles k*pi/12 (+ a seed-selected offset; includes equal and exactly opposite headings) x "
        "both quaternion signs per object x {ego frame, map-frame rendering under each ego pose of the menu} x roll/pitch "
        "{0, 0.02 rad}; seams TPMetricsAph.get_value, result.heading_error (both argument orders), Ap(TPMetricsAph).tp_list. "
        "state = (frame kind, quaternion signs, roll/pitch, d bucket of pi/12, sign of the yaw difference); non-trivial = "
        "negative yaw involved or a quaternion sign flipped or a difference that wraps across +-pi")
ASSUMPTIONS = [
    "yaw of an object = yaw of its rotation matrix (Z-Y-X Euler); objects are built from (yaw, pitch, roll) so the reference "
    "yaw is the construction parameter, rotated by the ego yaw in map-frame renderings",
    "tolerance 1e-9 on angles (weights: /pi) for planar orientations; with roll/pitch != 0 'the yaw angle' depends on the Euler "
    "convention at second order (roll*pitch), so those cases use an angular tolerance of 3e-3 rad",
]
_SEED = [0]
OFFSETS = [0.013, 0.0, 0.029, 0.041, 0.007]


def worker_init():
    _SEED[0] = int(os.environ.get("VERIF_SEED", "0") or 0)


_TIER = ["quick"]


def yaws(seed):
    """24 (thorough: 48) equally spaced yaws shifted by the seed's offset, plus the exact cardinal headings (0, +-pi/2, pi) where
    quaternion components vanish and the two headings next to the +-pi seam."""
    off = OFFSETS[seed % len(OFFSETS)]
    n = 12 if _TIER[0] == "quick" else 24
    ys = [geom.wrap(k * math.pi / n + off) for k in range(-n + 1, n + 1)]
    for c in (0.0, math.pi / 2, -math.pi / 2, math.pi, math.pi - 1e-7, -math.pi + 1e-7):
        if all(abs(c - y) > 1e-12 for y in ys):
            ys.append(c)
    return ys


def units(tier, seed):
    _TIER[0] = tier
    egos = G.ego_menu(seed)
    frames = [("base_link", egos[0])] + [("map", e) for e in egos]
    rps = [(0.0, 0.0), (0.02, -0.02)] if tier == "quick" else [(0.0, 0.0), (0.02, -0.02), (0.0, 0.03), (-0.05, 0.0)]
    return [dict(frame=f, ego=list(e), rp=list(rp), ye=k, tier=tier) for f, e in frames for rp in rps for k in range(len(yaws(seed)))]


def bounds(tier, seed):
    _TIER[0] = tier
    return {"yaws": len(yaws(seed)), "offset": OFFSETS[seed % len(OFFSETS)], "quaternion_signs": 4, "frames": "ego + 4 map renderings",
            "roll_pitch": 2 if tier == "quick" else 4}


def run_unit(unit, acc):
    _TIER[0] = unit.get("tier", "quick")
    Y = yaws(_SEED[0])
    ye = Y[unit["ye"]]
    for yg in Y:
        for ne in (False, True):
            for ng in (False, True):
                check_case(dict(frame=unit["frame"], ego=unit["ego"], rp=unit["rp"], ye=ye, yg=yg, neg_e=ne, neg_g=ng), acc)


def check_case(case, acc):
    acc.case()
    ye, yg = case["ye"], case["yg"]
    r, p = case["rp"]
    fr, ego = case["frame"], tuple(case["ego"])
    e = G.mk3d(dict(x=5.0, y=1.0, yaw=ye, roll=r, pitch=p, qneg=case["neg_e"], label="CAR", uuid="e", score=0.9), fr, ego)
    g = G.mk3d(dict(x=5.2, y=1.1, yaw=yg, roll=-r, pitch=p, qneg=case["neg_g"], label="CAR", uuid="g"), fr, ego)
    tf = G.transforms(ego)
    d = geom.adiff(ye, yg)
    want_w = 1.0 - d / math.pi
    TA = 1e-9 if (r == 0.0 and p == 0.0) else 3e-3
    TW = TA / math.pi + 1e-12
    res = DynamicObjectWithPerceptionResult(e, g, transforms=tf)
    rev = DynamicObjectWithPerceptionResult(g, e, transforms=tf)
    acc.exec(2)
    acc.compared()
    bucket = int(round(d / (math.pi / 12)))
    wraps = abs(ye - yg) > math.pi
    acc.state((fr == "map", case["neg_e"], case["neg_g"], tuple(case["rp"]), bucket, (ye > yg) - (ye < yg), wraps),
              nontrivial=(ye < 0 or yg < 0 or case["neg_e"] or case["neg_g"] or wraps))
    acc.outcome((bucket,))
    if acc.cases % 2011 == 1:
        acc.sample(case)

    def bad(sig, msg):
        acc.violation(sig, msg + " | est yaw=%.6f gt yaw=%.6f d=%.6f frame=%s ego=%s rp=%s neg=(%s,%s)" % (
            ye, yg, d, fr, ego, case["rp"], case["neg_e"], case["neg_g"]), case)

    fk = "ego" if fr == "base_link" else "map"
    w = TPMetricsAph().get_value(res)
    w2 = TPMetricsAph().get_value(rev)
    if abs(w - want_w) > TW:
        bad("aph-weight:" + fk, "APH heading weight is %.9f, expected 1-d/pi=%.9f" % (w, want_w))
    if abs(w - w2) > TW:
        bad("aph-weight-asymmetric:" + fk, "weight(est,gt)=%.9f but weight(gt,est)=%.9f" % (w, w2))
    if not (0.0 <= w <= 1.0):
        bad("aph-weight-range", "weight %.9f outside [0,1]" % w)
    for name, rr, sign in (("est->gt", res, 1.0), ("gt->est", rev, -1.0)):
        err = rr.heading_error
        yerr = err[2]
        if not (-math.pi - 1e-9 <= yerr <= math.pi + 1e-9):
            bad("yaw-error-range", "yaw error %s = %.9f outside [-pi, pi]" % (name, yerr))
        elif abs(abs(yerr) - d) > TA:
            bad("yaw-error-magnitude", "yaw error %s = %.9f, expected magnitude d=%.9f" % (name, yerr, d))
    # through Ap: a single correct result contributes its heading weight
    a = Ap(TPMetricsAph(), [[res]], 1, [AutowareLabel.CAR], MatchingMode.CENTERDISTANCE, [1.0])
    acc.exec()
    if len(a.tp_list) != 1 or abs(a.tp_list[0] - want_w) > TW:
        bad("ap-tp-list:" + fk, "Ap(TPMetricsAph).tp_list=%s, expected [%.9f]" % (a.tp_list, want_w))
    # orientations given by quaternion elements that are not of unit length (as read from a file), on objects nothing has touched yet:
    # the yaw error asked of the objects directly is that of the rotations they denote
    if r == 0.0 and p == 0.0 and fr == "base_link" and not case["neg_g"]:
        from pyquaternion import Quaternion as _Q
        for qs in (math.sqrt(2.0), 0.41):
            ef = G.mk3d(dict(x=5.0, y=1.0, yaw=ye, label="CAR", uuid="e", score=0.9), fr, ego)
            gf = G.mk3d(dict(x=5.2, y=1.1, yaw=yg, label="CAR", uuid="g"), fr, ego)
            sg_ = -1.0 if case["neg_e"] else 1.0
            ef.state.orientation = _Q(sg_ * qs * math.cos(ye / 2), 0.0, 0.0, sg_ * qs * math.sin(ye / 2))
            gf.state.orientation = _Q(qs * math.cos(yg / 2), 0.0, 0.0, qs * math.sin(yg / 2))
            acc.exec()
            he = ef.get_heading_error(gf)
            if he is None or abs(abs(he[2]) - d) > 1e-9:
                bad("yaw-error:non-unit-quaternion", "objects whose orientations are given by quaternion elements of norm %.3f report yaw error %s, expected magnitude %.9f" % (qs, he, d))
    # the pair's weight is a function of the two orientations: the same map-frame pair handed over with the transforms of other
    # (level) ego poses keeps its weight exactly - also when the boxes are slightly tilted
    if fr == "map" and not case["neg_e"] and not case["neg_g"]:
        for ego2 in ((0.0, 0.0, 0.0), (3.0, -7.0, 2.0), (-40.0, 12.5, -0.9)):
            acc.exec()
            wo = TPMetricsAph().get_value(DynamicObjectWithPerceptionResult(e, g, transforms=G.transforms(ego2)))
            if abs(wo - w) > 1e-9:
                bad("aph-weight:depends-on-ego-pose", "the same map-frame pair weighs %.9f with the transforms of ego pose %s and %.9f with those of %s" % (wo, ego2, w, ego))
    # the weight and the yaw error are functions of the two orientations: boxes wider than long and polygon-shaped objects (which
    # carry an orientation like any other object) get the same values as the 2 x 4 boxes
    if r == 0.0 and p == 0.0 and not case["neg_g"] and not case["neg_e"] and (fr == "base_link" or abs(ego[2]) > 1.0):
        from shapely.geometry import Polygon as _Poly
        from perception_eval.common.shape import Shape as _Shape, ShapeType as _ST
        variants = []
        ew = G.mk3d(dict(x=5.0, y=1.0, yaw=ye, qneg=case["neg_e"], label="CAR", uuid="e", score=0.9, size=[4.0, 2.0, 1.5]), fr, ego)
        variants.append(("estimate wider than long", ew, g))
        gw = G.mk3d(dict(x=5.2, y=1.1, yaw=yg, label="CAR", uuid="g", size=[3.0, 1.0, 1.5]), fr, ego)
        variants.append(("ground truth wider than long", e, gw))
        foot = _Poly([(1.5, 1.0, 0.0), (-1.5, 1.0, 0.0), (-2.0, 0.0, 0.0), (-1.5, -1.0, 0.0), (1.5, -1.0, 0.0)])
        ep = G.mk3d(dict(x=5.0, y=1.0, yaw=ye, qneg=case["neg_e"], label="CAR", uuid="e", score=0.9), fr, ego)
        ep.state.shape = _Shape(_ST.POLYGON, (2.0, 3.5, 1.5), foot)
        gp = G.mk3d(dict(x=5.2, y=1.1, yaw=yg, label="CAR", uuid="g"), fr, ego)
        gp.state.shape = _Shape(_ST.POLYGON, (2.0, 3.5, 1.5), foot)
        variants += [("polygon estimate", ep, g), ("polygon ground truth", e, gp), ("two polygons", ep, gp)]
        for nm, ev, gv in variants:
            acc.exec(2)
            try:
                rv = DynamicObjectWithPerceptionResult(ev, gv, transforms=tf)
                wv, yv = TPMetricsAph().get_value(rv), rv.heading_error[2]
            except Exception as ex:  # noqa
                bad("shape:raises", "%s: %r" % (nm, ex))
                continue
            if abs(wv - w) > 1e-9 or abs(abs(yv) - abs(res.heading_error[2])) > 1e-9:
                bad("shape-dependence:" + ("polygon" if "polygon" in nm else "wide-box"), "%s: heading weight %.9f / yaw error %.9f, the 2 x 4 boxes with the same orientations give %.9f / %.9f" % (
                    nm, wv, yv, w, res.heading_error[2]))
    # label policies under which an estimate of another class is a TP for this ground truth: the heading weight is still that of the
    # two physical orientations
    if r == 0.0 and p == 0.0 and not case["neg_e"]:
        for elab, pol in (("UNKNOWN", MatchingLabelPolicy.ALLOW_UNKNOWN), ("BUS", MatchingLabelPolicy.ALLOW_ANY), ("UNKNOWN", MatchingLabelPolicy.ALLOW_ANY)):
            em = G.mk3d(dict(x=5.0, y=1.0, yaw=ye, label=elab, uuid="e", score=0.9), fr, ego)
            rm = DynamicObjectWithPerceptionResult(em, g, pol, transforms=tf)
            acc.exec(2)
            wm = TPMetricsAph().get_value(rm)
            am = Ap(TPMetricsAph(), [[rm]], 1, [AutowareLabel.CAR], MatchingMode.CENTERDISTANCE, [1.0])
            if not rm.is_label_correct:
                bad("policy:label-not-accepted", "%s estimate / CAR ground truth under %s is not label-correct" % (elab, pol.name))
            elif abs(wm - want_w) > TW or len(am.tp_list) != 1 or abs(am.tp_list[0] - want_w) > TW:
                bad("aph-weight:mixed-label:" + fk, "%s estimate matched to a CAR ground truth under %s: heading weight %.9f, Ap tp_list %s, expected 1-d/pi=%.9f" % (
                    elab, pol.name, wm, am.tp_list, want_w))
    # two frames of one track: in the second frame the same ground truth (same uuid) and its estimate have both turned by 90 degrees,
    # so the heading weight of the pair is unchanged; one Ap (one TPMetricsAph instance) scores both frames
    if r == 0.0 and p == 0.0:
        e2 = G.mk3d(dict(x=5.0, y=1.0, yaw=ye + math.pi / 2, qneg=case["neg_e"], label="CAR", uuid="e", score=0.8), fr, ego)
        g2 = G.mk3d(dict(x=5.2, y=1.1, yaw=yg + math.pi / 2, qneg=case["neg_g"], label="CAR", uuid="g"), fr, ego)
        res2 = DynamicObjectWithPerceptionResult(e2, g2, transforms=tf)
        a2 = Ap(TPMetricsAph(), [[res], [res2]], 2, [AutowareLabel.CAR], MatchingMode.CENTERDISTANCE, [1.0])
        acc.exec()
        if len(a2.tp_list) != 2 or abs(a2.tp_list[0] - want_w) > TW or abs(a2.tp_list[1] - 2 * want_w) > 2 * TW:
            bad("ap-tp-list:two-frames:" + fk, "Ap(TPMetricsAph) over two frames of a turning track: tp_list=%s, expected [%.9f, %.9f]" % (a2.tp_list, want_w, 2 * want_w))
