"""C11 - classification pairs objects by identity and scores them by label agreement."""
import itertools
import math
import os

from perception_eval.common.evaluation_task import EvaluationTask
from perception_eval.common.label import AutowareLabel, TrafficLightLabel
from perception_eval.evaluation.matching.objects_filter import divide_objects, divide_objects_to_num
from perception_eval.evaluation.metrics.classification.accuracy import ClassificationAccuracy
from perception_eval.evaluation.metrics.classification.classification_metrics_score import ClassificationMetricsScore
from perception_eval.evaluation.result.object_result import get_object_results

from mc.gen import frames as F
from mc.gen import objects as G

ID = "C11"
RULE = ("every pair of ROI-less object sets of size <= 2 (quick) / <= 3 (thorough) per side over uuids {u1,u2,u3} x 2 cameras (unique "
        "(uuid, camera) per side), every label assignment over {green, red, unknown} (traffic-light path, both uuid-first settings) or "
        "{car, pedestrian} (generic id path), in both list orders; metrics ClassificationAccuracy / ClassificationMetricsScore per "
        "label and summarised recomputed from the pairs; a frame-evaluation layer (classification2d configuration, PerceptionFrameResult.evaluate_frame). state = (path, uuid-first, "
        "multiset of (camera, uuid-relation, label-relation) of pairs and leftovers); non-trivial = a uuid-equal pair with different "
        "labels or a label-equal pair with different uuids exists")
ASSUMPTIONS = [
    "uuids are non-null and unique per side and camera (as the statement demands)",
    "what happens to unpaired traffic-light estimates is left open: GT-less results, if any, must be leftover estimates",
]
UU = ["1", "12", "2"]     # lane-id style uuids, one being a substring of another
CAMS_TLR = ["CAM_TRAFFIC_LIGHT", "CAM_TRAFFIC_LIGHT_NEAR"]
CAMS_GEN = ["CAM_FRONT", "CAM_BACK"]
CAMS_PREFIX, UU_PREFIX = ["CAM_FRONT", "CAM_FRONT_LEFT"], ["1", "left_1", "front_left_1"]
CAMS_PREFIX2, UU_PREFIX2 = ["CAM_BACK", "CAM_BACK_LEFT"], ["7", "left_7", "back_left_7"]
UU_LONG = ["0123456789abcdef0123456789abcdef-obj-1", "0123456789abcdef0123456789abcdef-obj-2", "0123456789abcdef0123456789abcdef-obj"]
TLR_LABELS = ["GREEN", "RED", "UNKNOWN"]
GEN_LABELS = ["CAR", "PEDESTRIAN"]


def _sets(maxn, labels, cams, uuids=None):
    slots = [(u, c) for u in (uuids or UU) for c in cams]
    for n in range(0, maxn + 1):
        for sel in itertools.combinations(slots, n):
            for labs in itertools.product(labels, repeat=n):
                yield [(u, c, l) for (u, c), l in zip(sel, labs)]


def units(tier, seed):
    n = 2 if tier == "quick" else 3
    u = []
    for path in ("tlr", "generic"):
        labels, cams = (TLR_LABELS, CAMS_TLR) if path == "tlr" else (GEN_LABELS, CAMS_GEN)
        E = list(_sets(n, labels, cams))
        nch = 8 if tier == "quick" else 64
        for k in range(nch):
            u.append(dict(path=path, n=n, chunk=[k, nch]))
    u.append(dict(path="manager"))
    # generic objects of cameras whose names extend one another, with uuids that spell the difference (cam_front + "left_1" / cam_front_left + "1")
    for k in range(4):
        u.append(dict(path="generic_prefix", chunk=[k, 4]))
    # generic objects over two cameras with the ground-truth list ordered so that one camera appears in two separate runs (front, back, front)
    u.append(dict(path="generic_runs"))
    # traffic-light estimates stamped 50 ms after the ground truth they are evaluated against (the nearest annotated sample)
    u.append(dict(path="tlr_dt"))
    # ground-truth lights labelled false_positive among the others (they agree with no estimate's label; only an equal uuid pairs them)
    u.append(dict(path="tlr_fp"))
    # the ground-truth list holds the very same object instances as the estimate list, in another order (a result evaluated against itself)
    u.append(dict(path="tlr_shared"))
    # every ordered pair of the light states of the golden table, one light per side
    for k in range(4):
        u.append(dict(path="tlr_all", chunk=[k, 4]))
    return u


def bounds(tier, seed):
    return {"set_size": 2 if tier == "quick" else 3, "uuids": UU, "cameras": 2, "tlr_labels": TLR_LABELS, "generic_labels": GEN_LABELS,
            "uuid_matching_first": [False, True]}


def run_unit(unit, acc):
    if unit["path"] == "manager":
        for E in _sets(2, TLR_LABELS, CAMS_TLR[:1]):
            for Gs in _sets(2, TLR_LABELS, CAMS_TLR[:1]):
                check_case(dict(path="manager", E=[list(x) for x in E], G=[list(x) for x in Gs]), acc)
        return
    if unit["path"] == "generic_prefix":
        ES = list(_sets(2, GEN_LABELS[:1], CAMS_PREFIX, UU_PREFIX)) + list(_sets(1, GEN_LABELS, CAMS_PREFIX2, UU_PREFIX2))
        # uuids longer than a canonical 36-character uuid that agree in their first 36 characters
        ES += list(_sets(2, GEN_LABELS[:1], CAMS_GEN[:1], UU_LONG))
        k, n = unit["chunk"]
        for i, E in enumerate(ES):
            if i % n != k:
                continue
            for Gs in ES:
                check_case(dict(path="generic", E=[list(x) for x in E], G=[list(x) for x in Gs], first=False), acc)
        return
    if unit["path"] == "generic_runs":
        cams = CAMS_GEN
        G3 = [("1", cams[0], "CAR"), ("12", cams[1], "CAR"), ("2", cams[0], "PEDESTRIAN"), ("3", cams[1], "CAR")]
        for perm in itertools.permutations(range(4), 3):
            Gs = [G3[i] for i in perm]
            for E in _sets(2, GEN_LABELS[:1], cams, ["1", "2", "3", "12"]):
                check_case(dict(path="generic", E=[list(x) for x in E], G=[list(x) for x in Gs], first=False), acc)
        return
    if unit["path"] == "tlr_dt":
        ES = list(_sets(2, TLR_LABELS, CAMS_TLR[:1]))
        for E in ES:
            for Gs in ES:
                for first in (False, True):
                    check_case(dict(path="tlr", E=[list(x) for x in E], G=[list(x) for x in Gs], first=first, dt=50000), acc)
        return
    if unit["path"] == "tlr_fp":
        ES = list(_sets(2, TLR_LABELS[:2], CAMS_TLR[:1]))
        GS = [g for g in _sets(2, TLR_LABELS[:2] + ["FP"], CAMS_TLR[:1]) if any(x[2] == "FP" for x in g)]
        for E in ES:
            for Gs in GS:
                for first in (False, True):
                    for rev in (False, True):
                        check_case(dict(path="tlr", E=[list(x) for x in E], G=[list(x) for x in (list(reversed(Gs)) if rev else Gs)], first=first), acc)
        return
    if unit["path"] == "tlr_shared":
        for E in _sets(3, TLR_LABELS, CAMS_TLR[:1]):
            if len(E) < 2:
                continue
            for perm in itertools.permutations(E):
                for first in (False, True):
                    check_case(dict(path="tlr", E=[list(x) for x in E], G=[list(x) for x in perm], first=first, shared=True), acc)
        return
    if unit["path"] == "tlr_all":
        from mc.ref import labels as RL
        names = [n.upper() for n in RL._TLR_MEMBERS]
        k, n = unit["chunk"]
        for i, le in enumerate(names):
            if i % n != k:
                continue
            for lg in names:
                for ug in ("1", "2"):
                    for first in (False, True):
                        check_case(dict(path="tlr", E=[["1", CAMS_TLR[0], le]], G=[[ug, CAMS_TLR[0], lg]], first=first), acc)
        return
    labels, cams = (TLR_LABELS, CAMS_TLR) if unit["path"] == "tlr" else (GEN_LABELS, CAMS_GEN)
    ES = list(_sets(unit["n"], labels, cams))
    k, n = unit["chunk"]
    for i, E in enumerate(ES):
        if i % n != k:
            continue
        for Gs in ES:
            for first in ((False, True) if unit["path"] == "tlr" else (False,)):
                check_case(dict(path=unit["path"], E=[list(x) for x in E], G=[list(x) for x in Gs], first=first), acc)


ALIAS = {"GREEN": "crosswalk_green", "RED": "crosswalk_red", "UNKNOWN": "crosswalk_unknown"}


def _mk(path, u, c, l, score=1.0, alias=False):
    o = G.mk2d(dict(roi=None, cam=c, label=l, family="traffic_light" if path != "generic" else "autoware", uuid=u, score=score))
    if alias and path != "generic" and l in ALIAS:   # the original annotation name is an alias that the converter maps onto the same label
        o.semantic_label.name = ALIAS[l]
    return o


def _best(E, Gs, first):
    def ok(e, g):
        return e[1] == g[1] and ((e[2] == g[2] and (not first or e[0] == g[0])) or e[0] == g[0])
    best = [0]

    def rec(i, used, val):
        if i == len(E):
            best[0] = max(best[0], val)
            return
        rec(i + 1, used, val)
        for j, g in enumerate(Gs):
            if j not in used and ok(E[i], g):
                rec(i + 1, used | {j}, val + (E[i][2] == g[2]))
    rec(0, frozenset(), 0)
    return best[0]


def _fin(x):
    return not (isinstance(x, float) and (math.isinf(x) or math.isnan(x)))


def _metrics_check(case, R, eo, go, label_enum, names, acc, bad):
    labels = [label_enum[n] for n in names]
    by = divide_objects(R, labels)
    num = divide_objects_to_num(go, labels)
    tot = dict(est=0, gt=0, tp=0, fp=0)
    acc.exec()
    ms = ClassificationMetricsScore({l: [by.get(l, [])] for l in labels}, {l: num.get(l, 0) for l in labels}, labels)
    for li, lab in enumerate(labels):
        bucket = []
        for r in R:
            el = r.estimated_object.semantic_label.label
            gl = r.ground_truth_object.semantic_label.label if r.ground_truth_object is not None else None
            b = el if el in labels else gl
            if b == lab:
                bucket.append(r)
        gcount = sum(1 for g in go if g.semantic_label.label == lab)
        tp = sum(1 for r in bucket if r.ground_truth_object is not None and r.estimated_object.semantic_label.label == r.ground_truth_object.semantic_label.label)
        n_est = len(bucket)
        a = ms.accuracies[li]
        acc.compared()
        want = dict(acc=tp / (n_est + gcount - tp) if (n_est + gcount - tp) else None, prec=tp / n_est if n_est else None,
                    rec=tp / gcount if gcount else None)
        want["f1"] = (2 * want["prec"] * want["rec"] / (want["prec"] + want["rec"])) if (want["prec"] is not None and want["rec"] is not None and want["prec"] + want["rec"] > 0) else None
        got = dict(acc=a.accuracy, prec=a.precision, rec=a.recall, f1=a.f1score)
        for k in want:
            if want[k] is None:
                if _fin(got[k]) and not (0.0 <= got[k] <= 1.0):
                    bad("metric:range:" + k, "label %s: %s=%r outside [0,1]" % (lab.name, k, got[k]))
                continue
            if not _fin(got[k]) or abs(got[k] - want[k]) > 1e-12:
                bad("metric:value:" + k, "label %s: %s=%r, counting definition gives %r (est=%d gt=%d tp=%d)" % (lab.name, k, got[k], want[k], n_est, gcount, tp))
            if not (0.0 <= want[k] <= 1.0):
                bad("metric:range:" + k, "label %s: %s=%r outside [0,1]" % (lab.name, k, want[k]))
        tot["est"] += n_est
        tot["gt"] += gcount
        tot["tp"] += tp
        tot["fp"] += n_est - tp
    # multi-frame (nested) containers: scoring the same container twice gives the same scores and leaves it untouched
    half = len(R) // 2
    nested = {l: [list(by.get(l, [])[:1]), list(by.get(l, [])[1:]), []] for l in labels}
    shapes = {l: [len(x) for x in v] for l, v in nested.items()}
    numd = {l: num.get(l, 0) for l in labels}
    acc.exec(2)
    m1 = ClassificationMetricsScore(nested, numd, labels)._summarize()
    m2 = ClassificationMetricsScore(nested, numd, labels)._summarize()
    a1 = [ClassificationAccuracy(nested[l], numd[l], [l]).results for l in labels]
    if {l: [len(x) for x in v] for l, v in nested.items()} != shapes:
        bad("metric:container-mutated", "scoring modified the caller's per-frame result lists: %s -> %s" % (shapes, {l.name: [len(x) for x in v] for l, v in nested.items()}))
    if repr(m1) != repr(m2) or repr(m1) != repr(ms._summarize()):
        bad("metric:re-evaluation-differs", "scoring the same nested results again gives %s, first %s, flat %s" % (m2, m1, ms._summarize()))
    accu, prec, rec, f1 = ms._summarize()
    w_acc = tot["tp"] / (tot["est"] + tot["gt"] - tot["tp"]) if (tot["est"] + tot["gt"] - tot["tp"]) else None
    w_prec = tot["tp"] / tot["est"] if tot["est"] else None
    w_rec = tot["tp"] / tot["gt"] if tot["gt"] else None
    for nm, g, w in (("accuracy", accu, w_acc), ("precision", prec, w_prec), ("recall", rec, w_rec)):
        if w is not None and (not _fin(g) or abs(g - w) > 1e-12):
            bad("summary:" + nm, "summarised %s=%r, counting definition %r" % (nm, g, w))
    if w_prec is not None and w_rec is not None and w_prec + w_rec > 0:
        wf = 2 * w_prec * w_rec / (w_prec + w_rec)
        if not _fin(f1) or abs(f1 - wf) > 1e-12:
            bad("summary:f1", "summarised F1=%r, definition %r" % (f1, wf))
    # perfect case
    perfect = len(R) == len(go) == len(eo) and len(go) > 0 and all(
        r.ground_truth_object is not None and r.estimated_object.semantic_label.label == r.ground_truth_object.semantic_label.label for r in R) \
        and all(o.semantic_label.label in labels for o in go)
    if perfect and any(abs(v - 1.0) > 1e-12 for v in (accu, prec, rec, f1)):
        bad("summary:perfect", "every ground truth paired with an equally-labelled estimate, nothing else reported, but scores are %s" % ((accu, prec, rec, f1),))


def check_case(case, acc):
    acc.case()
    path = case["path"]
    E, Gs = [tuple(x) for x in case["E"]], [tuple(x) for x in case["G"]]

    def bad(sig, msg):
        acc.violation(sig, msg + " | " + str(case), case)

    if path == "manager":
        ec = F.eval_config("classification2d", "cam_traffic_light", dict(
            label_prefix="traffic_light", target_labels=["green", "red", "unknown"], max_x_position=None, max_y_position=None, min_point_numbers=None,
            center_distance_thresholds=None, plane_distance_thresholds=None, iou_2d_thresholds=None, iou_3d_thresholds=None))
        eo = [_mk("tlr", *x) for x in E]
        go = [_mk("tlr", *x) for x in Gs]
        from perception_eval.common.dataset import FrameGroundTruth
        from perception_eval.evaluation.result.perception_frame_result import PerceptionFrameResult
        acc.exec()
        res = get_object_results(ec.evaluation_task, list(eo), list(go), ec.target_labels)
        labs = ("green", "red", "unknown")
        fr = PerceptionFrameResult(res, FrameGroundTruth(100, "0", list(go)), ec.metrics_config, F.crit_config(ec, {}, labs), F.pf_config(ec, None, labs),
                                   100, ec.target_labels)
        fr.evaluate_frame()
        R = fr.object_results
        sc = fr.metrics_score.classification_scores[0]
        labels = ec.target_labels
        acc.compared()
        for li, lab in enumerate(labels):
            bucket = [r for r in R if r.estimated_object.semantic_label.label == lab]
            tp = sum(1 for r in bucket if r.ground_truth_object is not None and r.ground_truth_object.semantic_label.label == lab)
            gcount = sum(1 for g in go if g.semantic_label.label == lab)
            a = sc.accuracies[li]
            if (a.num_tp, a.objects_results_num, a.num_ground_truth) != (tp, len(bucket), gcount):
                bad("manager:counts", "label %s: manager reports tp=%d est=%d gt=%d, pairs give tp=%d est=%d gt=%d" % (
                    lab.name, a.num_tp, a.objects_results_num, a.num_ground_truth, tp, len(bucket), gcount))
        acc.state(("manager", len(E), len(Gs), tuple(sorted(x[2] for x in E)), tuple(sorted(x[2] for x in Gs))), nontrivial=bool(E) and bool(Gs))
        return

    first = case["first"]
    for order in (0, 1, 2):
        if order == 2 and path != "tlr":
            continue
        EE, GG = (E, Gs) if order != 1 else (list(reversed(E)), list(reversed(Gs)))
        # third pass (traffic lights): the estimates carry alias names (crosswalk_*) of the same labels
        eo = [_mk(path, *x, alias=order == 2) for x in EE]
        go = [_mk(path, *x) for x in GG]
        if case.get("shared"):
            go = [eo[EE.index(x)] for x in GG]
        if case.get("dt"):
            for o_ in eo:
                o_.unix_time = 100 + case["dt"]
        e_in, g_in = list(eo), list(go)
        acc.exec()
        try:
            R = get_object_results(EvaluationTask.CLASSIFICATION2D, e_in, g_in, uuid_matching_first=first)
        except Exception as ex:  # noqa
            bad("raises", "get_object_results raised %r" % (ex,))
            return
        acc.compared()
        if len(e_in) != len(eo) or len(g_in) != len(go) or any(a is not b for a, b in zip(e_in, eo)) or any(a is not b for a, b in zip(g_in, go)):
            bad("caller-list-mutated", "the caller's lists were modified")
        pe, pg, correct = [], [], 0
        rel = []
        for r in R:
            i = G.index_of(r.estimated_object, eo)
            if i is None:
                bad("foreign-object", "result estimate is not an input estimate")
                return
            pe.append(i)
            if r.ground_truth_object is not None:
                j = G.index_of(r.ground_truth_object, go)
                if j is None:
                    bad("foreign-object", "result ground truth is not an input ground truth")
                    return
                pg.append(j)
                e, g = EE[i], GG[j]
                if e[1] != g[1]:
                    bad("cross-camera-pair", "estimate %s paired with ground truth %s of another camera" % (e, g))
                if path == "generic":
                    if e[0] != g[0]:
                        bad("generic:pair-without-same-uuid", "generic objects %s / %s paired although their uuids differ" % (e, g))
                else:
                    if not ((e[2] == g[2] and (not first or e[0] == g[0])) or e[0] == g[0]):
                        bad("tlr:inadmissible-pair", "traffic lights %s / %s paired: neither label-equal%s nor uuid-equal" % (e, g, " with equal uuid" if first else ""))
                correct += e[2] == g[2]
                rel.append((e[0] == g[0], e[2] == g[2]))
        if len(set(pe)) != len(pe) or len(set(pg)) != len(pg):
            bad("not-one-to-one", "an object is used in more than one pair: estimates %s ground truths %s" % (pe, pg))
        for i, e in enumerate(EE):
            for j, g in enumerate(GG):
                if e[0] == g[0] and e[1] == g[1]:
                    paired_together = any(a == i and b == j for a, b in zip([G.index_of(r.estimated_object, eo) for r in R if r.ground_truth_object is not None], pg))
                    if path == "generic" and not paired_together:
                        bad("generic:same-uuid-not-paired", "generic objects %s / %s share uuid and camera but are not paired" % (e, g))
                    if path == "tlr" and i not in [a for a, r in zip(pe, R) if r.ground_truth_object is not None] and j not in pg:
                        bad("tlr:uuid-pair-left", "traffic lights %s / %s share uuid and camera but both stay unpaired" % (e, g))
        if path == "tlr" and EE and GG and correct != _best(EE, GG, first):
            bad("tlr:not-max-label-correct", "%d label-correct pairs, the largest possible under the rule is %d" % (correct, _best(EE, GG, first)))
        if path == "generic":
            # leftover estimates are reported without ground truth (outside the integrated traffic-light camera)
            if sorted(pe) != list(range(len(EE))) and GG:
                bad("generic:estimate-lost", "generic id path: every estimate must appear in exactly one result; got %s of %d" % (sorted(pe), len(EE)))
        label_enum = TrafficLightLabel if path == "tlr" else AutowareLabel
        names = TLR_LABELS if path == "tlr" else GEN_LABELS
        if any(x[2] == "FP" for x in EE + GG):
            # how a classification score counts a pair with a false_positive-labelled ground truth (a label of the FP-validation tasks) is
            # not specified; for these sets the pairing rule is checked, the scores are not
            acc.note("scores-not-checked:fp-labelled-ground-truth")
        else:
            _metrics_check(case, R, eo, go, label_enum, names, acc, bad)
            if path == "tlr":
                _metrics_check(case, R, eo, go, label_enum, ["GREEN", "RED"], acc, bad)
        if order == 0:
            cross = any(e[0] == g[0] and e[1] == g[1] and e[2] != g[2] for e in EE for g in GG) or any(e[2] == g[2] and e[1] == g[1] and e[0] != g[0] for e in EE for g in GG)
            acc.state((path, first, tuple(sorted((c, l) for _, c, l in EE)), tuple(sorted((c, l) for _, c, l in GG)), tuple(sorted(rel)), len(R) - len(pg)),
                      nontrivial=cross)
            acc.outcome((path, first, tuple(sorted(rel))))
    if acc.cases % 5003 == 1:
        acc.sample(case)
