"""C03 - per-frame TP/FP/FN/TN accounting conserves objects."""
import math
import os

from perception_eval.common.evaluation_task import EvaluationTask
from perception_eval.common.label import AutowareLabel
from perception_eval.evaluation.matching import MatchingLabelPolicy
from perception_eval.evaluation.result.object_result import get_object_results

from mc.gen import frames as F
from mc.gen import objects as G
from mc.props import _scenes as S
from mc.ref import filtering as RF
from mc.ref import labels as RL

ID = "C03"
RULE = ("ordered sub-lists (<=2 quick / <=3 thorough) of a 10-estimate and an 8-ground-truth pool placed inside, outside and "
        "across the critical region (unknown estimate, FP-labelled and non-target ground truth, contested ground truth) x "
        "3 label policies x ego frame and map-frame renderings (ego-pose menu) x critical filters {x/y box, per-label box, "
        "distance ring} x pass/fail thresholds {0.5, 2.0, per-label}; seams: PerceptionFrameResult.evaluate_frame on hand-built "
        "frames and PerceptionEvaluationManager.add_frame_result (wide and narrow manager filter), plus two consecutive frames, and every scene of a reduced pool under four ego poses in a row in one process (map rendering). "
        "state = (seam, frame kind, policy, critical filter, threshold, per-object status vector); non-trivial = at least one "
        "object removed by the critical filter or a FP/FN/TN present")
ASSUMPTIONS = [
    "objects of one scene are pairwise distinguishable under DynamicObject.__eq__ (time, label, position, orientation)",
    "pass/fail score is the library's plane distance (exactness: C06); decisions within 1e-6 of a bound/threshold are skipped",
    "critical membership is the reference predicate of mc/ref/filtering.py on ego-relative coordinates",
]
_SEED = [0]


def worker_init():
    _SEED[0] = int(os.environ.get("VERIF_SEED", "0") or 0)


def units(tier, seed):
    kmax = 2 if tier == "quick" else 3
    egos = G.ego_menu(seed)
    frames = [("base_link", egos[1])] + [("map", e) for e in (egos[1:2] if tier == "quick" else egos[1:3])]
    u = []
    nch = 6 if tier == "quick" else 24
    for fr, ego in frames:
        for pol in S.POLICIES:
            for k in range(nch):
                u.append(dict(seam="frame", frame=fr, ego=list(ego), policy=pol, kmax=kmax, chunk=[k, nch], tier=tier))
    # unknown-labelled ground truth with 'unknown' among the target labels (label compatibility towards an unknown ground truth)
    for fr, ego in frames[:2]:
        for pol in S.POLICIES:
            u.append(dict(seam="frame", family="unknown_gt", frame=fr, ego=list(ego), policy=pol, kmax=2 if tier == "quick" else 3, chunk=[0, 1], tier=tier))
    # target labels listed in the other order (per-label lists follow the list order)
    for fr, ego in frames[:2]:
        for pol in S.POLICIES[:2]:
            u.append(dict(seam="frame", family="reversed", frame=fr, ego=list(ego), policy=pol, kmax=2, chunk=[0, 1], tier=tier))
    # the pass/fail configuration lists the labels in another order than the critical filter (same value per label)
    for fr, ego in frames[:2]:
        for pol in S.POLICIES[:2]:
            u.append(dict(seam="frame", family="pf_reversed", frame=fr, ego=list(ego), policy=pol, kmax=2, chunk=[0, 1], tier=tier))
    # the caller hands the object results over in another order than the matcher produced them (e.g. sorted by confidence: a
    # GT-less result before a matched pair)
    for fr, ego in frames[:2]:
        for pol in S.POLICIES[:2]:
            u.append(dict(seam="frame", family="res_reversed", frame=fr, ego=list(ego), policy=pol, kmax=2, chunk=[0, 1], tier=tier))
    # the pass/fail configuration also carries a threshold for the false_positive label (an estimate can "hit" an FP-labelled ground truth)
    for fr, ego in frames[:2]:
        for pol in S.POLICIES[:2]:
            u.append(dict(seam="frame", family="fp_thr", frame=fr, ego=list(ego), policy=pol, kmax=2, chunk=[0, 1], tier=tier))
    # a distance ring whose inner radius differs widely between the labels (unknown estimates are judged by the mean bound)
    for fr, ego in frames[:2]:
        for pol in S.POLICIES:
            u.append(dict(seam="frame", family="ring_nonuni", frame=fr, ego=list(ego), policy=pol, kmax=2, chunk=[0, 1], tier=tier))
    # objects exactly at the ego origin (ego-relative x = y = 0.0, planar distance exactly 0) - in the ego frame and in map renderings
    # whose ego pose has no rotation, so that the transformed coordinates are exact zeros too
    for fr, ego in (("base_link", (0.0, 0.0, 0.0)), ("map", (10.0, -5.0, 0.0)), ("map", (0.0, 0.0, 0.0))):
        u.append(dict(seam="frame", family="origin", frame=fr, ego=list(ego), policy="DEFAULT", kmax=2, chunk=[0, 1], tier=tier))
    # the ego moves between the frames evaluated in one process: every scene is evaluated under three ego poses in a row (map rendering), each
    # against its own reference (a map -> ego transform remembered from an earlier frame would judge the critical area around the wrong ego)
    for pol in S.POLICIES[:2]:
        u.append(dict(seam="frame", family="ego_sequence", frame="map", ego=list(egos[1]), ego_seq=[list(egos[1]), list(egos[2]), list(egos[3 % len(egos)]), list(egos[1])],
                      policy=pol, kmax=2, chunk=[0, 1], tier=tier))
    # traffic lights: ROI-less 2D objects that carry a 3-D position in the camera frame; the frame supplies camera -> base_link
    for ci in range(len(CAM_MOUNTS)):
        u.append(dict(seam="lights", cam=ci))
    # manager seam: both manager-level filters, both frames
    for fr, ego in frames[:2]:
        for pol in S.POLICIES:
            for mf in ("wide", "narrow"):
                u.append(dict(seam="manager", frame=fr, ego=list(ego), policy=pol, kmax=2, mgr_filter=mf, chunk=[0, 1], tier=tier))
    return u


def bounds(tier, seed):
    return {"sub_list_size": 2 if tier == "quick" else 3, "pool": "10 estimates / 8 ground truths", "policies": 3,
            "frames": "ego + %d map renderings" % (1 if tier == "quick" else 2), "critical_filters": list(S.CRIT)[:3],
            "manager_seam": "sub-lists <=2 of 6 estimates / 5 ground truths (quick) or the full pools (thorough), two consecutive frames",
            "thresholds": list(S.THR), "manager_filters": ["wide", "narrow"], "jitter": list(G.jitter(seed))}


MGR_FILTER = {"wide": dict(max_x_position=100.0, max_y_position=100.0), "narrow": dict(max_x_position=[13.0, 9.0], max_y_position=[6.5, 6.5])}
MGR_REF = {"wide": dict(target_labels=S.LABELS, max_x=[100.0, 100.0], max_y=[100.0, 100.0], min_pts=[0, 0]),
           "narrow": dict(target_labels=S.LABELS, max_x=[13.0, 9.0], max_y=[6.5, 6.5], min_pts=[0, 0])}


# camera mounts: (translation in base_link, rotation matrix camera axes -> base_link axes); optical axes x right, y down, z forward
CAM_MOUNTS = [((12.0, 0.0, 2.0), [[0.0, 0.0, 1.0], [-1.0, 0.0, 0.0], [0.0, -1.0, 0.0]]),
              ((-3.0, 1.5, 1.0), [[0.0, 0.0, -1.0], [1.0, 0.0, 0.0], [0.0, -1.0, 0.0]])]      # rear-facing
LIGHT_Z = [4.0, 20.0, 33.0, 45.0, 57.0]
LIGHT_X = [-10.0, 0.0, 8.0]
RINGS = [(1.0, 50.0), (10.0, 40.0)]


def _check_lights(case, acc):
    """every subset of <= 2 lights out of a 5 x 3 lattice (estimates = the ground truths' positions, same uuids) x 2 rings."""
    import numpy as np
    from perception_eval.common.dataset import FrameGroundTruth
    from perception_eval.common.label import Label, TrafficLightLabel
    from perception_eval.common.object2d import DynamicObject2D
    from perception_eval.common.schema import FrameID
    from perception_eval.common.transform import HomogeneousMatrix
    from perception_eval.evaluation.result.perception_frame_result import PerceptionFrameResult
    t, Rm = CAM_MOUNTS[case["cam"]]
    Rm = np.array(Rm)
    ec = F.eval_config("classification2d", "cam_traffic_light", dict(
        label_prefix="traffic_light", target_labels=["green", "red", "unknown"], max_x_position=None, max_y_position=None, min_point_numbers=None,
        center_distance_thresholds=None, plane_distance_thresholds=None, iou_2d_thresholds=None, iou_3d_thresholds=None))
    labs = ("green", "red", "unknown")

    def light(uuid, p, lab="RED", score=1.0):
        return DynamicObject2D(unix_time=100, frame_id=FrameID.CAM_TRAFFIC_LIGHT, semantic_score=score, semantic_label=Label(TrafficLightLabel[lab], lab.lower(), []),
                               roi=None, uuid=uuid, position=tuple(p))

    pts = [case["lights"][i] for i in range(len(case["lights"]))]
    lo, hi = case["ring"]
    gts = [light("l%d" % i, p) for i, p in enumerate(pts)]
    ests = [light("l%d" % i, p, score=0.9) for i, p in enumerate(pts)]
    dist = [math.hypot(*((Rm @ np.array(p, dtype=float) + np.array(t))[:2])) for p in pts]
    if any(min(abs(d - lo), abs(d - hi)) < 1e-6 for d in dist):
        acc.skip("boundary:ring")
        return
    cam2ego = HomogeneousMatrix(t, Rm.copy(), src=FrameID.CAM_TRAFFIC_LIGHT, dst=FrameID.BASE_LINK)
    acc.exec()
    res = get_object_results(ec.evaluation_task, list(ests), list(gts), ec.target_labels)
    fr = PerceptionFrameResult(res, FrameGroundTruth(100, "0", list(gts), transforms=[cam2ego]), ec.metrics_config,
                               F.crit_config(ec, dict(max_d=[hi] * 3, min_d=[lo] * 3), labs), F.pf_config(ec, None, labs), 100, ec.target_labels)
    fr.evaluate_frame()
    acc.compared()
    p = fr.pass_fail_result
    want = sorted("l%d" % i for i, d in enumerate(dist) if lo < d < hi)
    counted_e = sorted(r.estimated_object.uuid for r in p.tp_object_results + p.fp_object_results)
    counted_g = sorted([r.ground_truth_object.uuid for r in p.tp_object_results] + [o.uuid for o in p.fn_objects])
    if counted_e != want or counted_g != want:
        acc.violation("lights:ring", "traffic lights at ego-frame planar distances %s with the ring (%s, %s): estimates counted %s, ground truths accounted %s, inside the ring %s" % (
            [round(d, 3) for d in dist], lo, hi, counted_e, counted_g, want), case)
    acc.state(("lights", case["cam"], tuple(case["ring"]), tuple(lo < d < hi for d in dist)), nontrivial=0 < len(want) < len(pts) or len(pts) == 1)
    acc.outcome(("lights", len(want), len(pts)))


def run_unit(unit, acc):
    if unit.get("seam") == "lights":
        import itertools
        lattice = [(x, -3.0, z) for z in LIGHT_Z for x in LIGHT_X]
        for k in (1, 2):
            for sel in itertools.combinations(range(len(lattice)), k):
                for ring in RINGS:
                    acc.case()
                    _check_lights(dict(seam="lights", cam=unit["cam"], lights=[list(lattice[i]) for i in sel], ring=list(ring)), acc)
        return
    if unit.get("family") == "unknown_gt":
        est, gt = _pools3(_SEED[0])
        for es in S.sublists(len(est), unit["kmax"]):
            for gs in S.sublists(len(gt), unit["kmax"]):
                check_case(dict(seam="frame", family="unknown_gt", frame=unit["frame"], ego=unit["ego"], policy=unit["policy"],
                                ests=[est[i] for i in es], gts=[gt[j] for j in gs], crits=["box3"], thrs=["per_label3"]), acc)
        return
    est, gt = S.pools(_SEED[0])
    if unit.get("family") == "origin":
        est = [dict(est[0], x=0.0, y=0.0), dict(est[2], x=0.0, y=0.0), est[0], dict(est[1], x=0.0, y=0.0, z=1.5)]
        gt = [dict(gt[0], x=0.0, y=0.0), dict(gt[2], x=0.0, y=0.0, pts=0), gt[0], gt[2]]
    if unit.get("family") == "fp_thr":
        est, gt = [est[i] for i in (0, 2, 5, 6, 9)] + [dict(est[9], x=est[9]["x"] + 1.3, uuid="e9b", score=0.31)], [gt[j] for j in (0, 2, 4)] + [dict(gt[4], x=3.2, y=-1.9, uuid="g4b")]
    if unit.get("family") in ("reversed", "pf_reversed", "res_reversed", "ring_nonuni", "ego_sequence"):
        est, gt = [est[i] for i in (0, 1, 2, 3, 4, 5, 7)], [gt[j] for j in (0, 1, 2, 3, 4, 7)]
    if unit["seam"] == "manager" and unit["tier"] == "quick":
        est, gt = [est[i] for i in (0, 1, 3, 4, 5, 7)], [gt[j] for j in (0, 1, 3, 4, 7)]
    subs_e = S.sublists(len(est), unit["kmax"])
    subs_g = S.sublists(len(gt), unit["kmax"])
    k, n = unit["chunk"]
    idx = 0
    for es in subs_e:
        for gs in subs_g:
            idx += 1
            if idx % n != k:
                continue
            case = dict(seam=unit["seam"], frame=unit["frame"], ego=unit["ego"], policy=unit["policy"],
                        ests=[est[i] for i in es], gts=[gt[j] for j in gs], crits=list(S.CRIT)[:3],
                        thrs=list(S.THR) if unit["tier"] == "thorough" else ["tight", "per_label", "zero"])
            if unit.get("family") in ("reversed", "pf_reversed", "res_reversed"):
                case["family"] = unit["family"]
                case["crits"], case["thrs"] = ["box_per_label", "ring"], ["per_label"]
            if unit.get("family") == "ring_nonuni":
                case["family"] = "ring_nonuni"
                case["crits"], case["thrs"] = ["ring_nonuni"], ["per_label", "loose"]
            if unit.get("family") == "fp_thr":
                case["family"] = "fp_thr"
                case["crits"], case["thrs"] = ["box_per_label", "ring"], ["per_label", "loose"]
            if unit.get("family") == "origin":
                case["family"] = "origin"
                case["crits"], case["thrs"] = ["ring", "box_per_label"], ["per_label"]
            if unit.get("family") == "ego_sequence":
                case["family"] = "ego_sequence"
                case["crits"], case["thrs"] = ["box_per_label", "ring"], ["per_label"]
                for ego_ in unit["ego_seq"]:
                    check_case(dict(case, ego=ego_), acc)
                continue
            if unit["seam"] == "manager":
                case["mgr_filter"] = unit["mgr_filter"]
                case["crits"] = ["box_per_label", "ring"]
                case["thrs"] = ["per_label"]
            check_case(case, acc)


LABELS3 = ["CAR", "PEDESTRIAN", "UNKNOWN"]
CRIT3 = {"box3": dict(max_x=[12.0, 12.0, 12.0], max_y=[6.0, 6.0, 6.0])}
THR3 = {"per_label3": [0.5, 2.0, 1.0]}


LABELS_R = ["PEDESTRIAN", "CAR"]


def _rev(d):
    return {k: (list(reversed(v)) if isinstance(v, list) else v) for k, v in d.items()}


def _params(case, crit, thr):
    """-> (target label names, reference filter cfg, pass/fail threshold list) of a case."""
    if case.get("family") == "unknown_gt":
        return LABELS3, dict(CRIT3[crit], target_labels=LABELS3), THR3[thr]
    if case.get("family") == "reversed":   # the same per-label values with the target labels listed as [pedestrian, car]
        return LABELS_R, dict(_rev(S.CRIT[crit]), target_labels=LABELS_R), list(reversed(S.THR[thr]))
    return S.LABELS, S.crit_ref_cfg(crit), S.THR[thr]


def _pools3(seed):
    jx, jy = G.jitter(seed)
    est = [dict(x=5.31 + jx, y=-0.17 + jy, yaw=0.5, label="CAR"), dict(x=5.4 + jy, y=0.6, yaw=0.4, label="UNKNOWN"),
           dict(x=6.2 + jx, y=-2.4, yaw=-0.4, label="PEDESTRIAN", size=[0.6, 0.6, 1.7]), dict(x=9.3, y=3.2 + jx, yaw=-1.0, label="PEDESTRIAN", size=[0.6, 0.6, 1.7])]
    gt = [dict(x=5.0 + jx, y=0.0 + jy, yaw=0.4, label="UNKNOWN"), dict(x=9.0 + jy, y=3.0 + jx, yaw=-1.1, label="CAR"),
          dict(x=6.0 + jx, y=-2.5, yaw=2.9, label="PEDESTRIAN", size=[0.6, 0.6, 1.7]), dict(x=14.0, y=-1.0 + jy, yaw=0.4, label="UNKNOWN")]
    for i, s_ in enumerate(gt):
        s_.setdefault("size", [2.0, 4.0, 1.5])
        s_.update(uuid="g%d" % i, z=0.0, pts=10, vel=[1.0, 0.5, 0.0])
    for i, s_ in enumerate(est):
        s_.setdefault("size", [2.0, 4.0, 1.5])
        s_.update(uuid="e%d" % i, z=0.0, score=round(0.93 - 0.07 * i, 3), vel=[1.0, 0.4, 0.0])
    return est, gt


def _status_vector(case, fr, ests, gts):
    p = fr.pass_fail_result
    ev, gv = [], []
    for e in ests:
        tp = sum(r.estimated_object is e for r in p.tp_object_results)
        fp = sum(r.estimated_object is e for r in p.fp_object_results)
        ev.append("T" if tp else ("F" if fp else "-"))
    for g in gts:
        s = ""
        s += "T" if any(r.ground_truth_object is g for r in p.tp_object_results) else ""
        s += "N" if any(o is g for o in p.fn_objects) else ""
        s += "n" if any(o is g for o in p.tn_objects) else ""
        s += "f" if any(r.ground_truth_object is g for r in p.fp_object_results) else ""
        gv.append(s or "-")
    return tuple(ev), tuple(gv)


def _check_frame(case, crit, thr, fr, ests, gts, pre_e, pre_g, acc, label="", pre_results=None):
    """pre_e / pre_g: indices of estimates / ground truths that reach the frame evaluation (after the manager filter)."""
    p = fr.pass_fail_result
    R = fr.object_results
    Gc = fr.frame_ground_truth.objects
    one = dict(case, crits=[crit], thrs=[thr])
    ev, gv = _status_vector(case, fr, ests, gts)
    acc.compared()

    def bad(sig, msg):
        if case.get("family") == "ego_sequence":
            sig += ":ego-sequence"       # depends on the frames evaluated before: reported from a replay of the whole unit
        acc.violation(sig, "%s%s | seam=%s frame=%s policy=%s crit=%s thr=%s est_status=%s gt_status=%s results=%s" % (
            label, msg, case["seam"], case["frame"], case["policy"], crit, thr, ev, gv,
            [(G.index_of(r.estimated_object, ests), None if r.ground_truth_object is None else G.index_of(r.ground_truth_object, gts)) for r in R]), one)

    labels, cfg, tlist = _params(case, crit, thr)
    # reference membership in the critical region ------------------------------------------------
    near = False
    keep_e, keep_g = {}, {}
    for i in pre_e:
        keep_e[i], m = RF.keep(case["ests"][i], False, cfg)
        near = near or m < RF.BOUNDARY
    for j in pre_g:
        keep_g[j], m = RF.keep(case["gts"][j], True, cfg)
        near = near or m < RF.BOUNDARY
    if near:
        acc.skip("boundary:critical-region")
        return
    # (1) results = TP + FP, each surviving estimate in exactly one list
    if len(p.tp_object_results) + len(p.fp_object_results) != len(R):
        bad("results!=tp+fp", "len(tp)+len(fp)=%d but %d object results survive" % (len(p.tp_object_results) + len(p.fp_object_results), len(R)))
    for r in R:
        i = G.index_of(r.estimated_object, ests)
        c = sum(x.estimated_object is r.estimated_object for x in p.tp_object_results) + sum(x.estimated_object is r.estimated_object for x in p.fp_object_results)
        if c != 1:
            bad("estimate-not-once", "estimate %s is reported %d times in TP+FP" % (i, c))
        if i is None or i not in pre_e:
            bad("foreign-estimate", "a result's estimate is not one of the frame's estimates")
            continue
        # (5) nothing outside the critical region is counted
        if not keep_e[i]:
            bad("estimate-outside-counted", "estimate %d lies outside the critical region but is counted" % i)
        if r.ground_truth_object is not None:
            j = G.index_of(r.ground_truth_object, gts)
            if j is None or j not in pre_g:
                bad("foreign-gt", "a result's ground truth is not one of the frame's ground truths")
            elif not keep_g[j]:
                bad("gt-outside-counted", "ground truth %d lies outside the critical region but its pair is counted" % j)
    for x in list(p.tp_object_results) + list(p.fp_object_results):
        if not any(x.estimated_object is r.estimated_object for r in R):
            bad("tpfp-not-in-results", "a TP/FP entry does not belong to the surviving results")
    # conversely every estimate inside the critical region survives unless the ground truth it was paired with is outside
    survivors = {G.index_of(r.estimated_object, ests) for r in R}
    dropped_gt = [j for j in pre_g if not keep_g[j]]
    for i in pre_e:
        if keep_e[i] and i not in survivors:
            if pre_results is not None:
                pj = pre_results.get(i, "absent")
                if pj == "absent" or pj is None or keep_g.get(pj, True):
                    bad("estimate-inside-dropped", "estimate %d lies inside the critical region (paired ground truth: %s) but its result was dropped" % (i, pj))
            elif not dropped_gt:
                bad("estimate-inside-dropped", "estimate %d lies inside the critical region and no ground truth was removed, but its result was dropped" % i)
    # critical ground truths = reference filter (identity, order)
    want_g = [j for j in pre_g if keep_g[j]]
    got_g = [G.index_of(o, gts) for o in Gc]
    if got_g != want_g:
        bad("critical-gt-set", "critical ground truths are %s, reference filter keeps %s" % (got_g, want_g))
    # (2) every critical GT accounted for exactly once
    for g in Gc:
        j = G.index_of(g, gts)
        is_fp_label = g.semantic_label.is_fp()
        c = (sum(r.ground_truth_object is g for r in p.tp_object_results) + sum(o is g for o in p.fn_objects) + sum(o is g for o in p.tn_objects)
             + sum((r.ground_truth_object is g and is_fp_label) for r in p.fp_object_results))
        if c != 1:
            bad("gt-not-once", "critical ground truth %s is accounted for %d times" % (j, c))
        if is_fp_label and (any(o is g for o in p.fn_objects) or any(r.ground_truth_object is g for r in p.tp_object_results)):
            bad("fp-label-as-tp-or-fn", "false-positive-labelled ground truth %s reported as TP/FN" % j)
        if not is_fp_label and any(o is g for o in p.tn_objects):
            bad("ordinary-gt-as-tn", "ordinary ground truth %s reported as TN" % j)
    for o in list(p.fn_objects) + list(p.tn_objects):
        if not any(o is g for g in Gc):
            bad("negative-not-critical", "a FN/TN object is not a critical ground truth of the frame (index %s)" % G.index_of(o, gts))
    for r in p.tp_object_results:
        if not any(r.ground_truth_object is g for g in Gc):
            bad("tp-gt-not-critical", "the ground truth of a TP is not a critical ground truth of the frame")
    # (3) ordinary critical GT = TP + FN
    ordinary = [g for g in Gc if not g.semantic_label.is_fp()]
    if len(ordinary) != len(p.tp_object_results) + len(p.fn_objects):
        bad("ordinaryGT!=TP+FN", "%d ordinary critical ground truths, TP=%d FN=%d" % (len(ordinary), len(p.tp_object_results), len(p.fn_objects)))
    # (4) a TP has a compatible GT that beats the threshold of the GT's label
    for r in p.tp_object_results:
        i, j = G.index_of(r.estimated_object, ests), G.index_of(r.ground_truth_object, gts)
        if i is None or j is None:
            continue
        el, gl = case["ests"][i]["label"], case["gts"][j]["label"]
        t = tlist[labels.index(gl)] if gl in labels else None
        if not RL.compatible(case["policy"], el, gl):
            bad("tp-incompatible", "TP (%d,%d) pairs labels %s/%s, incompatible under %s" % (i, j, el, gl, case["policy"]))
        if t is None:
            bad("tp-without-threshold", "TP (%d,%d) has a ground truth label %s without a threshold" % (i, j, gl))
        elif abs(r.plane_distance.value - t) < 1e-6:
            acc.skip("boundary:threshold")
        elif not r.plane_distance.value < t:
            bad("tp-beyond-threshold", "TP (%d,%d) has plane distance %.6f, threshold for %s is %s" % (i, j, r.plane_distance.value, gl, t))
    # conversely a surviving compatible pair that beats the threshold must be a TP (exactly-one-of TP/FP is decided, not arbitrary)
    for r in R:
        if r.ground_truth_object is None:
            continue
        i, j = G.index_of(r.estimated_object, ests), G.index_of(r.ground_truth_object, gts)
        if i is None or j is None:
            continue
        el, gl = case["ests"][i]["label"], case["gts"][j]["label"]
        if gl in labels and RL.compatible(case["policy"], el, gl) and r.plane_distance.value < tlist[labels.index(gl)] - 1e-6:
            if not any(x.estimated_object is r.estimated_object for x in p.tp_object_results):
                bad("correct-pair-not-tp", "pair (%d,%d) is compatible and within the threshold but is not reported as TP" % (i, j))
    # (6) counters
    if p.get_num_success() != len(p.tp_object_results) + len(p.tn_objects) or p.get_num_fail() != len(p.fp_object_results) + len(p.fn_objects):
        bad("counters", "get_num_success/get_num_fail disagree with the list sizes")
    removed = len(pre_e) + len(pre_g) - len(R) - len(Gc)
    nontriv = removed > 0 or bool(p.fp_object_results) or bool(p.fn_objects) or bool(p.tn_objects)
    acc.state((case["seam"], case.get("family"), case["frame"] == "map", case["policy"], crit, thr, case.get("mgr_filter"), ev, gv), nontrivial=nontriv)
    acc.outcome((ev, gv))


def check_case(case, acc):
    acc.case()
    if case.get("seam") == "lights":
        return _check_lights(case, acc)
    fr_id, ego = case["frame"], tuple(case["ego"])
    ests = [G.mk3d(s, fr_id, ego) for s in case["ests"]]
    gts = [G.mk3d(s, fr_id, ego) for s in case["gts"]]
    if acc.cases % 1009 == 1:
        acc.sample(case)
    if case["seam"] == "frame":
        u3 = case.get("family") == "unknown_gt"
        rv = case.get("family") == "reversed"
        ec = F.eval_config("detection", fr_id, dict(target_labels=["car", "pedestrian", "unknown"], min_point_numbers=[0, 0, 0]) if u3 else
                           (dict(target_labels=["pedestrian", "car"]) if rv else None))
        names = ("car", "pedestrian", "unknown") if u3 else (("pedestrian", "car") if rv else ("car", "pedestrian"))
        tf = G.transforms(ego)
        res = get_object_results(EvaluationTask.DETECTION, ests, gts, ec.target_labels, MatchingLabelPolicy[case["policy"]], transforms=tf)
        if case.get("family") == "res_reversed":
            res = list(reversed(res))
        pre_e, pre_g = list(range(len(ests))), list(range(len(gts)))
        prev = None
        for crit in case["crits"]:
            for thr in case["thrs"]:
                acc.exec()
                pfr = case.get("family") == "pf_reversed"
                fr = F.evaluate_frame(ec, res, gts, ego, CRIT3[crit] if u3 else (_rev(S.CRIT[crit]) if rv else S.CRIT[crit]),
                                      THR3[thr] if u3 else (list(reversed(S.THR[thr])) if rv else S.THR[thr]), labels=names, previous=prev,
                                      pf_labels=("pedestrian", "car") if pfr else (("car", "pedestrian", "false_positive") if case.get("family") == "fp_thr" else None),
                                      pf_thr=list(reversed(S.THR[thr])) if pfr else ((list(S.THR[thr]) + [1.0]) if case.get("family") == "fp_thr" else None))
                pre_results = {G.index_of(r.estimated_object, ests): (None if r.ground_truth_object is None else G.index_of(r.ground_truth_object, gts)) for r in res}
                _check_frame(case, crit, thr, fr, ests, gts, pre_e, pre_g, acc, pre_results=pre_results)
    else:
        ov = dict(MGR_FILTER[case["mgr_filter"]], matching_label_policy=case["policy"])
        m = F.manager("detection", fr_id, ov)
        mcfg = MGR_REF[case["mgr_filter"]]
        ke = [RF.keep(s, False, mcfg) for s in case["ests"]]
        kg = [RF.keep(s, True, mcfg) for s in case["gts"]]
        if any(mm < RF.BOUNDARY for _, mm in ke + kg):
            acc.skip("boundary:manager-filter")
            return
        pre_e = [i for i, (k, _) in enumerate(ke) if k]
        pre_g = [j for j, (k, _) in enumerate(kg) if k]
        for crit in case["crits"]:
            for thr in case["thrs"]:
                m.frame_results = []
                # two consecutive frames on one manager with the SAME configuration objects while the ego moves: the second frame
                # (same ego-relative scene, new ego pose) must be accounted like the first
                crit_cfg, pf_cfg = F.crit_config(m.evaluator_config, S.CRIT[crit]), F.pf_config(m.evaluator_config, S.THR[thr])
                ego0 = tuple(case["ego"])
                for rep in (0, 1):
                    ego = ego0 if rep == 0 else (ego0[0] + 3.0, ego0[1] - 2.0, ego0[2] + 0.4)
                    ests = [G.mk3d(s, fr_id, ego) for s in case["ests"]]
                    gts = [G.mk3d(s, fr_id, ego) for s in case["gts"]]
                    acc.exec()
                    fg = F.frame_gt(gts, ego, 100 + rep, str(rep))
                    E = list(ests)
                    fr = m.add_frame_result(100 + rep, fg, E, crit_cfg, pf_cfg)
                    _check_frame(case, crit, thr, fr, ests, gts, pre_e, pre_g, acc, label="frame#%d: " % rep)
                    # estimates reaching the frame are exactly those passing the manager filter
                    got = sorted(G.index_of(r.estimated_object, ests) for r in fr.object_results)
                    if any(i not in pre_e for i in got):
                        acc.violation("manager-filter-leak", "estimate outside the manager filter reached the frame result: %s vs %s" % (got, pre_e),
                                      dict(case, crits=[crit], thrs=[thr]))
                m.frame_results = []
