"""C16 - loading a dataset reproduces its annotations as ground-truth frames."""
import contextlib
import io
import itertools
import math
import os
import shutil

from perception_eval.common.dataset import load_all_datasets
from perception_eval.common.evaluation_task import EvaluationTask
from perception_eval.common.label import LabelConverter
from perception_eval.common.schema import FrameID, Visibility

from mc.engine import scratch
from mc.gen import objects as G
from mc.gen import t4
from mc.ref import geom
from mc.ref import labels as RL

import numpy as np


def _rz(a):
    c, s_ = math.cos(a), math.sin(a)
    return np.array([[c, -s_, 0.0], [s_, c, 0.0], [0.0, 0.0, 1.0]])


def _ego_matrix(ego):
    """4x4 ego(base_link)->map matrix of an ego pose (x, y, yaw) or (x, y, z, yaw, pitch, roll): R = Rz(yaw) Ry(pitch) Rx(roll)."""
    if len(ego) == 3:
        x, y, z, yaw, pitch, roll = ego[0], ego[1], 0.0, ego[2], 0.0, 0.0
    else:
        x, y, z, yaw, pitch, roll = ego
    cp, sp, cr, sr = math.cos(pitch), math.sin(pitch), math.cos(roll), math.sin(roll)
    Ry = np.array([[cp, 0.0, sp], [0.0, 1.0, 0.0], [-sp, 0.0, cp]])
    Rx = np.array([[1.0, 0.0, 0.0], [0.0, cr, -sr], [0.0, sr, cr]])
    M = np.eye(4)
    M[:3, :3] = _rz(yaw) @ Ry @ Rx
    M[:3, 3] = (x, y, z)
    return M


ID = "C16"
RULE = ("generated T4 datasets: 1..3 samples (thorough 4) x every presence pattern of 2 instances (thorough 3) over the samples x 3 "
        "category pairs (registered, merged-away, unregistered) x both visibility naming styles x {LIDAR_CONCAT, LIDAR_TOP + extra "
        "camera sensor} x attribute on/off, with per-sample ego poses from the menu (planar, and a tilted variant with roll/pitch/height) and per-instance pose menus (yaws across +-pi); "
        "key frames 0.1 s, 1 s and 1.52 s / 1.02 s apart (oldest preceding sample 3.04 s / 3.06 s old); each "
        "dataset is loaded as detection/base_link, tracking/map, sensing/base_link (merge on) and detection/map (merge on). state = "
        "(samples, presence pattern, categories, style, channel, task/frame/merge); non-trivial = an instance appears or disappears")
ASSUMPTIONS = [
    "the lidar is calibrated at the ego origin (T4 convention named in the statement); object poses are planar (yaw) with z offsets, ego poses are "
    "planar or tilted (roll, pitch, height)",
    "expected values are the writer's own tables (mc/gen/t4.py); golden labels from mc/ref/labels.py; tolerance 1e-6",
]
# the last set: categories outside the label table that are parts of registered names (vehicle.car, pedestrian.person?, motorbike ...)
CATS = [("car", "pedestrian.adult", "bicycle"), ("bus", "animal", "truck"), ("weird.thing", "car", "motorbike"), ("vehicle", "bike", "adult")]
VIS = {"full": "FULL", "most": "MOST", "partial": "PARTIAL", "none": "NONE", "v80-100": "FULL", "v60-80": "MOST", "v40-60": "PARTIAL", "v0-40": "NONE"}
STYLES = {"t4": ("full", "most", "partial", "none"), "nusc": ("v80-100", "v60-80", "v40-60", "v0-40")}
POSE = {"i0": [((20.0, 3.0, 0.5), 0.2), ((21.0, 3.5, 0.5), 0.5), ((23.0, 4.0, 0.5), 3.0), ((24.0, 4.5, 0.6), -3.0)],
        "i1": [((5.0, -3.0, 0.5), -1.2), ((5.0, -2.0, 0.5), -3.0), ((6.0, -1.0, 0.5), 3.1), ((7.0, -1.0, 0.4), 2.5)],
        "i2": [((-8.0, 9.0, 0.2), 1.0), ((-8.5, 9.5, 0.2), 1.3), ((-9.0, 10.0, 0.2), 1.6), ((-9.5, 10.0, 0.2), 1.9)]}
LOADS = [("detection", "base_link", False), ("tracking", "map", False), ("sensing", "base_link", True), ("detection", "map", True)]
_SEED = [0]
_DIR = [None]


def worker_init():
    _SEED[0] = int(os.environ.get("VERIF_SEED", "0") or 0)


def units(tier, seed):
    u = []
    combos = [(1, 2), (2, 2), (3, 2), (2, 3)] if tier == "quick" else [(1, 3), (2, 3), (3, 3), (4, 3)]
    for nsamp, ninst in combos:
        pats = [p for p in itertools.product(itertools.product((0, 1), repeat=nsamp), repeat=ninst) if sum(map(sum, p)) > 0]
        if nsamp == 4:
            pats = pats[::5]
        nch = max(1, len(pats) // 4)
        for k in range(nch):
            u.append(dict(nsamp=nsamp, pats=[list(map(list, p)) for p in pats[k::nch]]))
    return u


def bounds(tier, seed):
    return {"samples": "1..%d" % (3 if tier == "quick" else 4), "instances": 2 if tier == "quick" else 3, "category_sets": len(CATS), "visibility_styles": 2,
            "sensor_variants": 2, "loads_per_dataset": len(LOADS)}


def run_unit(unit, acc):
    for pat in unit["pats"]:
        for ci in range(len(CATS)):
            for style in STYLES:
                for variant in (0, 1):
                    check_case(dict(nsamp=unit["nsamp"], pres=pat, cats=ci, style=style, variant=variant, seed=_SEED[0]), acc)
            # the rows of two scenes alternate in the sample table (logs merged and sorted by time): frames still follow the table
            if unit["nsamp"] >= 3:
                for sc in ([0, 1, 0, 1], [0, 1, 1, 0], [1, 0, 1, 1]):
                    check_case(dict(nsamp=unit["nsamp"], pres=pat, cats=ci, style="t4", variant=ci % 2, seed=_SEED[0], scenes=sc[:unit["nsamp"]]), acc)
            # the sensor files exist and are loaded too (load_raw_data=True); the camera key frame has its own ego pose
            if unit["nsamp"] <= 2:
                check_case(dict(nsamp=unit["nsamp"], pres=pat, cats=ci, style="t4", variant=1, seed=_SEED[0], raw=True), acc)
            # key frames one second apart (an instance missing from a sample is unannotated for two seconds)
            if unit["nsamp"] >= 3:
                check_case(dict(nsamp=unit["nsamp"], pres=pat, cats=ci, style="t4", variant=0, seed=_SEED[0], slow=True), acc)
                # key frames 1.52 s (4 samples: 1.02 s) apart: the oldest preceding sample is 3.04 s (3.06 s) old, just beyond the
                # nominal 3 s look-back but inside the loader's horizon (3 s + 0.15 s buffer)
                if ci == 0:
                    check_case(dict(nsamp=unit["nsamp"], pres=pat, cats=ci, style="t4", variant=0, seed=_SEED[0], slow=1520000 if unit["nsamp"] == 3 else 1020000), acc)
            # the sample table is not in chronological order (rows keep their place: frame i is row i)
            if unit["nsamp"] >= 3:
                for perm in ([2, 0, 1, 3], [0, 3, 1, 2], [3, 2, 1, 0]):
                    pm = [p_ for p_ in perm if p_ < unit["nsamp"]]
                    check_case(dict(nsamp=unit["nsamp"], pres=pat, cats=ci, style="t4", variant=ci % 2, seed=_SEED[0], ts_perm=pm), acc)
            # tilted ego (roll / pitch / height), one sensor variant
            check_case(dict(nsamp=unit["nsamp"], pres=pat, cats=ci, style="t4", variant=ci % 2, seed=_SEED[0], tilt=True), acc)


def check_case(case, acc):
    acc.case()
    seed = case.get("seed", 0)
    egos = G.ego_menu(seed)
    nsamp, pres = case["nsamp"], case["pres"]
    insts = ["i0", "i1", "i2"][:len(pres)]
    cats = CATS[case["cats"]]
    levels = STYLES[case["style"]]
    channel, camera = (("LIDAR_CONCAT", False), ("LIDAR_TOP", True))[case["variant"]]
    samples = []
    for k in range(nsamp):
        anns = []
        for ii, inst in enumerate(insts):
            if pres[ii][k]:
                p, yaw = POSE[inst][k]
                anns.append(dict(inst=inst, cat=cats[ii], pos=p, yaw=yaw, size=(1.5 + ii, 4.0 - ii, 1.2 + 0.1 * k), npts=3 + k + 10 * ii, radar=(2 + ii + k) if case["variant"] else 0,
                                 vis=levels[(k + ii) % 4], attrs=["vehicle_state.moving"] if (case["variant"] and ii == 0) else []))
        ego = egos[k % len(egos)]
        if case.get("tilt"):
            ego = (ego[0], ego[1], 0.3 + 0.1 * k, ego[2], 0.05 - 0.02 * k, -0.04 + 0.03 * k)
        step = (1000000 if case["slow"] is True else int(case["slow"])) if case.get("slow") else 100000     # slow: key frames one second apart (instances may be unannotated for > 1.5 s)
        tsk = 1000000 + step * (case["ts_perm"][k] if case.get("ts_perm") else k)
        smp = dict(ts=tsk, ego=ego, anns=anns)
        if case["variant"]:   # the sensor data of a key frame is stamped a little before / after the sample itself
            smp.update(lidar_ts=tsk - 40000, cam_ts=tsk + 13000)
        if case.get("raw") and len(ego) == 3:   # the camera frame of the key frame carries its own (slightly later) ego pose
            smp["cam_ego"] = (ego[0] + 0.31, ego[1] + 0.07, ego[2] + 0.012)
        samples.append(smp)
    if _DIR[0] is None or not os.path.isdir(_DIR[0]):
        _DIR[0] = scratch.new_dir("c16")
    root = os.path.join(_DIR[0], "ds")
    shutil.rmtree(root, ignore_errors=True)
    t4.write(root, samples, list(cats), vis_levels=levels, lidar_channel=channel, extra_camera=camera, scene_of=case.get("scenes"), raw=bool(case.get("raw")))
    if acc.cases % 211 == 1:
        acc.sample(case)

    for task, fid, merge in LOADS:
        if (case.get("scenes") or case.get("ts_perm")) and task == "tracking":
            continue   # what a track's past is across scene boundaries is not specified

        def bad(sig, msg):
            acc.violation(sig, msg + " | load=%s/%s merge=%s nsamp=%d pres=%s cats=%s style=%s channel=%s" % (task, fid, merge, nsamp, pres, cats, case["style"], channel), case)

        acc.exec()
        try:
            with contextlib.redirect_stderr(io.StringIO()), contextlib.redirect_stdout(io.StringIO()):
                frames = load_all_datasets([root], EvaluationTask(task), LabelConverter(task, merge, "autoware"), FrameID.from_value(fid),
                                           **({"load_raw_data": True} if case.get("raw") else {}))
        except Exception as ex:  # noqa
            bad("load-raises", "load_all_datasets raised %r" % (ex,))
            continue
        acc.compared()
        appear = any(len(set(p)) > 1 for p in pres)
        acc.state((nsamp, tuple(map(tuple, pres)) if nsamp < 3 else sum(map(sum, pres)), case["cats"], case["style"], channel, task, fid, merge), nontrivial=appear)
        acc.outcome((task, fid, len(frames)))
        if len(frames) != nsamp:
            bad("frame-count", "%d frames loaded for %d samples" % (len(frames), nsamp))
            continue
        gold = RL.golden("autoware", task, merge)
        for k, f in enumerate(frames):
            s = samples[k]
            if f.unix_time != s["ts"] or f.frame_name != str(k):
                bad("frame-order/stamp", "frame %d carries time %s / name %r, sample has timestamp %s" % (k, f.unix_time, f.frame_name, s["ts"]))
            if len(f.objects) != len(s["anns"]):
                bad("object-count", "frame %d holds %d objects for %d annotations" % (k, len(f.objects), len(s["anns"])))
                continue
            byid = {}
            for o in f.objects:
                byid.setdefault(o.uuid, []).append(o)
            M = f.transforms[(FrameID.BASE_LINK, FrameID.MAP)]
            E = _ego_matrix(s["ego"])
            if not np.allclose(M.matrix, E, atol=1e-9):
                bad("ego-transform", "frame %d: stored ego->map transform differs from the ego pose %s" % (k, s["ego"]))
            for a in s["anns"]:
                os_ = byid.get(a["inst"], [])
                if len(os_) != 1:
                    bad("instance-id", "frame %d: %d objects carry instance id %s" % (k, len(os_), a["inst"]))
                    continue
                o = os_[0]
                want_lab = gold.get(a["cat"], "UNKNOWN")
                if o.semantic_label.label.name != want_lab:
                    bad("label", "annotation category %r loaded as %s, expected %s" % (a["cat"], o.semantic_label.label.name, want_lab))
                if o.semantic_label.name != a["cat"] or list(o.semantic_label.attributes) != list(a["attrs"]):
                    bad("label-name/attributes", "object carries name %r attributes %s, annotation has %r %s" % (o.semantic_label.name, o.semantic_label.attributes, a["cat"], a["attrs"]))
                if tuple(o.state.size) != tuple(map(float, a["size"])):
                    bad("size", "box size %s, annotation %s" % (o.state.size, a["size"]))
                if o.pointcloud_num != a["npts"]:
                    bad("point-count", "lidar point count %s, annotation %s" % (o.pointcloud_num, a["npts"]))
                if not (o.visibility is Visibility[VIS[a["vis"]]]):
                    bad("visibility:" + case["style"], "visibility %r, annotation level %r" % (o.visibility, a["vis"]))
                if not (o.frame_id == FrameID.from_value(fid)) or o.unix_time != s["ts"]:
                    bad("object-frame/time", "object frame id %s time %s" % (o.frame_id, o.unix_time))
                gx, gy, gz = a["pos"]
                Og = np.eye(4)
                Og[:3, :3] = _rz(a["yaw"])
                Og[:3, 3] = (gx, gy, gz)
                W = Og if fid == "map" else np.linalg.inv(E) @ Og
                p = o.state.position
                if max(abs(p[i] - W[i, 3]) for i in range(3)) > 1e-6 or not np.allclose(o.state.orientation.rotation_matrix, W[:3, :3], atol=1e-6):
                    bad("pose:" + fid + (":tilted-ego" if case.get("tilt") else ""), "object pose %s / yaw %.6f, expected position %s (annotation moved by the inverse ego pose)" % (
                        tuple(p), o.state.orientation.yaw_pitch_roll[0], tuple(W[:3, 3])))
                if fid == "base_link":
                    pm, rm = M.transform(o.state.position, o.state.orientation)
                    if max(abs(pm[0] - gx), abs(pm[1] - gy), abs(pm[2] - gz)) > 1e-6 or not np.allclose(rm.rotation_matrix, _rz(a["yaw"]), atol=1e-6):
                        bad("ego2map-roundtrip", "stored ego->map transform maps the ego-frame pose to %s, annotated global pose is %s" % (tuple(pm), a["pos"]))
                if task == "tracking":
                    ii = insts.index(a["inst"])
                    past = [POSE[a["inst"]][j] for j in range(k) if pres[ii][j]]
                    tp = o.tracked_path or []
                    got = sorted((tuple(round(v, 6) for v in st.position), round(geom.wrap(st.orientation.yaw_pitch_roll[0]), 6)) for st in tp)
                    want = sorted((tuple(map(float, pp)), round(geom.wrap(yy), 6)) for pp, yy in past)
                    if len(got) != len(want) or any(max(abs(a_ - b_) for a_, b_ in zip(g[0], w[0])) > 1e-6 or geom.adiff(g[1], w[1]) > 1e-5 for g, w in zip(got, want)):
                        bad("tracked-path", "instance %s frame %d exposes past poses %s, preceding samples hold %s" % (a["inst"], k, got, want))
