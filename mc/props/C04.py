"""C04 - AP, APH and mAP equal the interpolated precision-recall area, within [0,1]."""
import itertools
import math
import os
from fractions import Fraction as Fr

from perception_eval.common.evaluation_task import EvaluationTask
from perception_eval.common.label import AutowareLabel
from perception_eval.evaluation.matching import MatchingLabelPolicy, MatchingMode
from perception_eval.evaluation.matching.objects_filter import divide_objects, divide_objects_to_num
from perception_eval.evaluation.metrics.detection.ap import Ap
from perception_eval.evaluation.metrics.detection.map import Map
from perception_eval.evaluation.metrics.detection.tp_metrics import TPMetricsAp, TPMetricsAph
from perception_eval.evaluation.result.object_result import DynamicObjectWithPerceptionResult, get_object_results

from mc.gen import frames as F
from mc.gen import objects as G
from mc.props import _apref as AR
from mc.props import _scenes as S
from mc.ref import ap as RAP
from mc.ref import geom

ID = "C04"
RULE = ("(a) every ranking over the symbol alphabet {T1, T.5, T0 (correct with heading weight 1/.5/0), F (wrong pair), N (no ground "
        "truth), I (ignored: ground truth of another label)} of length 0..5 (thorough: 0..6; AP-only alphabet {T,F,N,I} to length 9) x "
        "ground-truth count x input order {ranked, reversed, rotated / split over frames} through Ap(TPMetricsAp/TPMetricsAph); a tie-"
        "confidence family for bounds; Map over all pairs of rankings of length <= 3 (thorough 4) for two labels; (b) matcher output of "
        "scene sub-lists x 4 matching modes x thresholds through divide_objects / Map; (c) MetricsScore.maps from add_frame_result and "
        "get_scene_result (two frames) in ego and map frame. state = (layer, ranking as symbol string, ground-truth count class, "
        "metric) for (a), (layer, mode, threshold, per-label ranking) otherwise; non-trivial = ranking with a correct and a non-correct result")
ASSUMPTIONS = [
    "exact-rational reference of mc/ref/ap.py; heading weights from the construction yaws (C09 checks the library weight); "
    "pair scores from the library (C06); tolerance 1e-9",
    "[0,1] / APH<=AP bounds asserted when the number of correct results does not exceed the ground-truth count (what one-to-one "
    "matching guarantees); value equality asserted for distinct confidences",
]
SY6 = ["T1", "T5", "T0", "F", "N", "I"]
SY4 = ["T1", "F", "N", "I"]
WT = {"T1": Fr(1), "T5": Fr(1, 2), "T0": Fr(0)}
WYAW = {"T1": 0.0, "T5": math.pi / 2, "T0": math.pi}
_SEED = [0]
_POOL = {}
TD = None


def worker_init():
    _SEED[0] = int(os.environ.get("VERIF_SEED", "0") or 0)


def _res(sym, rank, label="CAR", conf=None):
    """real object result for a symbol at a rank (confidence decreasing with rank)."""
    key = (sym, rank, label, conf)
    if key not in _POOL:
        other = "PEDESTRIAN" if label == "CAR" else "CAR"
        score = conf if conf is not None else round(0.97 - 0.05 * rank, 4)
        yaw = 0.3
        x = 3.0 * rank
        e = G.mk3d(dict(x=x, y=0.0, yaw=yaw, label=label, score=score, uuid="e%d" % rank), "map", (0.0, 0.0, 0.0))
        tf = G.transforms((0.0, 0.0, 0.0))
        if sym.startswith("T"):
            g = G.mk3d(dict(x=x + 0.2, y=0.0, yaw=yaw + WYAW[sym], label=label, uuid="g%d" % rank), "map", (0.0, 0.0, 0.0))
        elif sym == "F":
            g = G.mk3d(dict(x=x + 1.7, y=0.0, yaw=yaw, label=label, uuid="g%d" % rank), "map", (0.0, 0.0, 0.0))
        elif sym == "I":
            g = G.mk3d(dict(x=x + 0.2, y=0.0, yaw=yaw, label=other, uuid="g%d" % rank), "map", (0.0, 0.0, 0.0))
        else:
            g = None
        _POOL[key] = DynamicObjectWithPerceptionResult(e, g, transforms=tf)
    return _POOL[key]


def units(tier, seed):
    u = []
    L6 = 5 if tier == "quick" else 6
    for L in range(0, L6 + 1):
        nch = 1 if L < 4 else (6 if L == 4 else 36 if L == 5 else 216)
        for k in range(nch):
            u.append(dict(layer="a", alphabet="6", L=L, chunk=[k, nch]))
    if tier == "thorough":
        for L in range(7, 10):
            nch = 4 ** (L - 5)
            for k in range(nch):
                u.append(dict(layer="a", alphabet="4", L=L, chunk=[k, nch]))
    u.append(dict(layer="ties"))
    lm = 3 if tier == "quick" else 4
    for k in range(8):
        u.append(dict(layer="map", L=lm, chunk=[k, 8]))
    for mode in ("CENTERDISTANCE", "PLANEDISTANCE", "IOU2D", "IOU3D"):
        for pol in S.POLICIES:
            u.append(dict(layer="b", mode=mode, policy=pol, kmax=2))
    for fr in ("base_link", "map"):
        for pol in S.POLICIES:
            for k in range(2):
                u.append(dict(layer="c", frame=fr, policy=pol, kmax=2, chunk=[k, 2], reduced=tier == "quick"))
    return u


def bounds(tier, seed):
    return {"ranking_length": "0..%d over 6 symbols" % (5 if tier == "quick" else 6) + ("; 7..9 over 4 symbols" if tier == "thorough" else ""),
            "gt_count": "0..len+1 (len<=4), else {0, nT-1, nT, nT+1, len+1}", "orders": ["ranked", "reversed", "rotated+split"],
            "map_pairs_len": 3 if tier == "quick" else 4, "scene_sublists": 2, "modes": 4, "frames": ["base_link", "map"]}


def _seqs(alphabet, L, chunk):
    sy = SY6 if alphabet == "6" else SY4
    k, n = chunk
    for idx, seq in enumerate(itertools.product(sy, repeat=L)):
        if idx % n == k:
            yield seq


def run_unit(unit, acc):
    lay = unit["layer"]
    if lay == "a":
        for seq in _seqs(unit["alphabet"], unit["L"], unit["chunk"]):
            nT = sum(s.startswith("T") for s in seq)
            L = len(seq)
            gs = range(0, L + 2) if L <= 4 else sorted({0, max(0, nT - 1), nT, nT + 1, L + 1})
            for Gn in gs:
                check_case(dict(layer="a", seq=list(seq), G=Gn, aph=unit["alphabet"] == "6"), acc)
            if 2 <= L <= 4 and all(x in SY4 for x in seq):
                # confidences that are distinct but 1e-9 apart: the ranking is still the one of the exact values
                check_case(dict(layer="a", seq=list(seq), G=max(nT, 1), aph=False, close=True), acc)
    elif lay == "ties":
        for L in range(2, 5):
            for seq in itertools.product(SY4, repeat=L):
                for tie_at in range(L - 1):
                    for Gn in range(0, L + 1):
                        check_case(dict(layer="ties", seq=list(seq), tie_at=tie_at, G=Gn), acc)
    elif lay == "map":
        seqs = [s for L in range(0, unit["L"] + 1) for s in itertools.product(SY4, repeat=L)]
        k, n = unit["chunk"]
        for i, a in enumerate(seqs):
            if i % n != k:
                continue
            for b in seqs:
                for ga, gb in ((len(a), len(b)), (0, 1), (len(a) + 1, 0)):
                    check_case(dict(layer="map", car=list(a), ped=list(b), G=[ga, gb]), acc)
                if len(a) <= 2 and len(b) <= 2:   # three labels (equal AP values among them included)
                    for c in seqs[:21:2]:
                        check_case(dict(layer="map", car=list(a), ped=list(b), bic=list(c), G=[max(1, len(a)), max(1, len(b)), max(1, len(c))]), acc)
    else:
        est, gt = S.pools(_SEED[0])
        if unit.get("reduced"):   # quick tier: the manager layer uses the 7 x 6 core of the pools
            est, gt = [est[i] for i in (0, 1, 2, 3, 4, 5, 7)], [gt[j] for j in (0, 1, 2, 3, 4, 7)]
        subs_e, subs_g = S.sublists(len(est), unit["kmax"]), S.sublists(len(gt), unit["kmax"])
        k, n = unit.get("chunk", [0, 1])
        idx = 0
        for es in subs_e:
            for gs in subs_g:
                idx += 1
                if idx % n != k:
                    continue
                c = dict(layer=lay, ests=[est[i] for i in es], gts=[gt[j] for j in gs], policy=unit["policy"])
                if lay == "b":
                    c["mode"] = unit["mode"]
                else:
                    c["frame"] = unit["frame"]
                    c["ego"] = list(G.ego_menu(_SEED[0])[1])
                check_case(c, acc)
        if lay == "c" and k == 0:
            # a matched pair that straddles the lateral limit of the critical region (estimate inside, ground truth outside, and the
            # reverse), alone and next to every single other pair
            eY, gY = dict(est[0], x=7.1, y=5.6, uuid="eY", score=0.37), dict(gt[0], x=7.0, y=6.4, uuid="gY")
            eZ, gZ = dict(est[0], x=3.1, y=-6.3, uuid="eZ", score=0.36), dict(gt[0], x=3.0, y=-5.7, uuid="gZ")
            for (ea, ga) in ((eY, gY), (eZ, gZ)):
                for i in [None] + list(range(len(est))):
                    for j in [None] + list(range(len(gt))):
                        c = dict(layer=lay, ests=([est[i]] if i is not None else []) + [ea], gts=([gt[j]] if j is not None else []) + [ga], policy=unit["policy"],
                                 frame=unit["frame"], ego=list(G.ego_menu(_SEED[0])[1]))
                        check_case(c, acc)


THR_LADDER = {"CENTERDISTANCE": [0.5, 1.0, 2.0], "PLANEDISTANCE": [0.5, 1.0, 2.0], "IOU2D": [0.6, 0.3, 0.05, 0.0], "IOU3D": [0.6, 0.3, 0.05, 0.0]}


def _weight_fn(case, ests, gts):
    def w(r):
        i, j = G.index_of(r.estimated_object, ests), G.index_of(r.ground_truth_object, gts)
        return 1.0 - geom.adiff(case["ests"][i]["yaw"], case["gts"][j]["yaw"]) / math.pi
    return w


def _check_maps(case, maps, frame_results, labels, policy, weight_fn, acc, bad, num_gt_of):
    """compare every Map of `maps` with the reference derived from the frame results' own object_results."""
    for mp in maps:
        aps_ref, aphs_ref = [], []
        for li, lab in enumerate(labels):
            bucket = [r for fr in frame_results for r in fr if AR.bucket_of(r, labels) == lab]
            gcount = num_gt_of(lab)
            thr = mp.matching_threshold_list[li]
            seq, seqh, near, ties = AR.ranking(bucket, lab, mp.matching_mode, thr, policy, weight_fn)
            if near:
                acc.skip("boundary:threshold")
                aps_ref.append("skip")
                aphs_ref.append("skip")
                continue
            nT = sum(1 for s in seq if s == 1)
            a, h = mp.aps[li], mp.aphs[li]
            acc.compared(2)
            if nT <= gcount or gcount == 0:
                for nm, o in (("AP", a), ("APH", h)):
                    if o.ap != float("inf") and not (-1e-12 <= o.ap <= 1 + 1e-9):
                        bad("range:" + nm, "%s of label %s = %r outside [0,1] (mode %s thr %s, %d correct, %d ground truths)" % (
                            nm, lab.name, o.ap, mp.matching_mode.value, thr, nT, gcount))
                if a.ap != float("inf") and h.ap > a.ap + 1e-9:
                    bad("aph>ap", "APH %r exceeds AP %r for label %s" % (h.ap, a.ap, lab.name))
            else:
                bad("more-correct-than-gt", "label %s: %d correct results for %d ground truths (mode %s thr %s): one-to-one accounting broken" % (
                    lab.name, nT, gcount, mp.matching_mode.value, thr))
            if ties:
                acc.skip("tie:confidence")
                aps_ref.append("skip")
                aphs_ref.append("skip")
                continue
            wa, wh = RAP.ap_from_ranking(seq, gcount), RAP.ap_from_ranking(seqh, gcount)
            aps_ref.append(wa)
            aphs_ref.append(wh)
            if not AR.close(a.ap, wa):
                bad("ap-value", "AP of label %s = %r, reference %s (ranking %s, G=%d, mode %s thr %s)" % (lab.name, a.ap, wa, seq, gcount, mp.matching_mode.value, thr))
            if not AR.close(h.ap, wh):
                bad("aph-value", "APH of label %s = %r, reference %s (ranking %s, G=%d, mode %s thr %s)" % (
                    lab.name, h.ap, None if wh is None else float(wh), [None if s is None else float(s) for s in seqh], gcount, mp.matching_mode.value, thr))
            if a.num_ground_truth != gcount:
                bad("gt-count", "label %s: Ap.num_ground_truth=%d, critical ground truths of that label=%d" % (lab.name, a.num_ground_truth, gcount))
        if "skip" not in aps_ref:
            if not AR.close(mp.map, RAP.mean_defined(aps_ref)):
                bad("map-value", "mAP %r, reference mean over defined APs %s" % (mp.map, RAP.mean_defined(aps_ref)))
            if not AR.close(mp.maph, RAP.mean_defined(aphs_ref)):
                bad("maph-value", "mAPH %r, reference %s" % (mp.maph, RAP.mean_defined(aphs_ref)))


def check_case(case, acc):
    acc.case()
    AR.VALUE_HOOK[0] = None
    lay = case["layer"]

    def bad(sig, msg):
        acc.violation(sig, msg + " | " + ", ".join("%s=%s" % (k, v) for k, v in case.items() if k not in ("ests", "gts")), case)

    if lay == "a":
        seq, Gn = case["seq"], case["G"]
        L = len(seq)
        if case.get("close"):
            res = [_res(s, i, conf=0.6 + 1e-9 * (L - i)) for i, s in enumerate(seq)]
        else:
            res = [_res(s, i) for i, s in enumerate(seq)]
        nT = sum(s.startswith("T") for s in seq)
        orders = {"ranked": [list(res)], "reversed": [list(reversed(res))]}
        if 2 <= L <= 4:
            orders["rotated+split"] = [list(res[L // 2:]), [], list(res[:L // 2])]
        if L <= 3:
            orders["flat"] = list(res)
        metrics = [("AP", TPMetricsAp, [None if s == "I" else (1 if s.startswith("T") else 0) for s in seq])]
        if case["aph"]:
            metrics.append(("APH", TPMetricsAph, [None if s == "I" else (WT[s] if s.startswith("T") else 0) for s in seq]))
        vals = {}
        for mname, mcls, rseq in metrics:
            want = RAP.ap_from_ranking(rseq, Gn)
            for oname, inp in orders.items():
                acc.exec()
                shape0 = [len(x) for x in inp] if oname != "flat" else len(inp)
                a = Ap(mcls(), inp, Gn, [AutowareLabel.CAR], MatchingMode.CENTERDISTANCE, [1.0])
                acc.compared()
                vals[mname] = a.ap
                if oname != "flat" and L <= 4:
                    # scoring must not modify the caller's per-frame lists, and scoring the same container again gives the same value
                    a2 = Ap(mcls(), inp, Gn, [AutowareLabel.CAR], MatchingMode.CENTERDISTANCE, [1.0])
                    acc.exec()
                    if [len(x) for x in inp] != shape0:
                        bad("ap:container-mutated", "Ap modified the caller's per-frame result lists: %s -> %s" % (shape0, [len(x) for x in inp]))
                    if repr(a2.ap) != repr(a.ap):
                        bad("ap:re-evaluation-differs", "scoring the same results again gives %r, first %r" % (a2.ap, a.ap))
                if not AR.close(a.ap, want):
                    bad("ap-value:" + mname, "%s=%r for ranking %s with %d ground truths (input %s), reference %s" % (mname, a.ap, "".join(seq), Gn, oname, want))
                if nT <= Gn and want is not None and not (-1e-12 <= a.ap <= 1 + 1e-9):
                    bad("range:" + mname, "%s=%r outside [0,1]" % (mname, a.ap))
                if mname == "AP" and want is not None:
                    if nT == 0 and a.ap != 0.0:
                        bad("ap-zero", "no correct result but AP=%r" % a.ap)
                    if Gn > 0 and nT == Gn and all(s.startswith("T") for s in seq[:Gn]) and abs(a.ap - 1.0) > 1e-9:
                        bad("ap-one", "every ground truth matched by a correct estimate ranked first, AP=%r" % a.ap)
                if len(a.tp_list) == L and L:
                    cumt = [float(sum(Fr(x) for x in rseq[:k + 1] if x is not None)) for k in range(L)]
                    if any(abs(x - y) > 1e-9 for x, y in zip(a.tp_list, cumt)):
                        bad("tp-list:" + mname, "cumulative TP list %s, reference %s" % (a.tp_list, cumt))
        if "APH" in vals and nT <= Gn and vals["AP"] != float("inf") and vals["APH"] > vals["AP"] + 1e-9:
            bad("aph>ap", "APH %r exceeds AP %r" % (vals["APH"], vals["AP"]))
        gcls = "0" if Gn == 0 else ("<" if Gn < nT else "=" if Gn == nT else ">")
        acc.state(("a", "".join(s[-1] if s.startswith("T") else s for s in seq), gcls), nontrivial=0 < nT < L)
        acc.outcome(("a", round(vals["AP"], 6) if vals["AP"] != float("inf") else "inf"))
        if acc.cases % 9001 == 1:
            acc.sample(case)
    elif lay == "ties":
        seq, Gn, t = case["seq"], case["G"], case["tie_at"]
        res = []
        for i, s in enumerate(seq):
            conf = round(0.97 - 0.05 * (i if i != t + 1 else t), 4)
            res.append(_res(s, i, conf=conf))
        nT = sum(s.startswith("T") for s in seq)
        for mcls in (TPMetricsAp, TPMetricsAph):
            for inp in ([list(res)], [list(reversed(res))]):
                acc.exec()
                a = Ap(mcls(), inp, Gn, [AutowareLabel.CAR], MatchingMode.CENTERDISTANCE, [1.0])
                acc.compared()
                if nT <= Gn and not (-1e-12 <= a.ap <= 1 + 1e-9):
                    bad("range:ties", "AP=%r outside [0,1] with tied confidences" % a.ap)
                if nT == 0 and a.ap != 0.0:
                    bad("ap-zero:ties", "no correct result but AP=%r" % a.ap)
        acc.state(("ties", "".join(seq), t, min(Gn, nT + 1)), nontrivial=0 < nT < len(seq))
    elif lay == "map":
        car = [_res(s, i, "CAR") for i, s in enumerate(case["car"])]
        ped = [_res(s, i + 10, "PEDESTRIAN") for i, s in enumerate(case["ped"])]
        labels = [AutowareLabel.CAR, AutowareLabel.PEDESTRIAN]
        per = [(case["car"], case["G"][0]), (case["ped"], case["G"][1])]
        bylab, gnum = {labels[0]: list(car), labels[1]: list(ped)}, {labels[0]: case["G"][0], labels[1]: case["G"][1]}
        if case.get("bic") is not None:   # a third target label
            labels = labels + [AutowareLabel.BICYCLE]
            bylab[labels[2]] = [_res(s, i + 20, "BICYCLE") for i, s in enumerate(case["bic"])]
            gnum[labels[2]] = case["G"][2]
            per.append((case["bic"], case["G"][2]))
        acc.exec()
        mp = Map(bylab, gnum, labels, MatchingMode.CENTERDISTANCE, [1.0] * len(labels))
        refs = []
        for sq, g in per:
            refs.append(RAP.ap_from_ranking([None if s == "I" else (1 if s.startswith("T") else 0) for s in sq], g))
        acc.compared()
        for li in range(len(labels)):
            if not AR.close(mp.aps[li].ap, refs[li]):
                bad("map:ap-value", "label %d AP %r reference %s" % (li, mp.aps[li].ap, refs[li]))
        if not AR.close(mp.map, RAP.mean_defined(refs)):
            bad("map-value", "mAP %r, mean over defined APs %s (APs %s)" % (mp.map, RAP.mean_defined(refs), refs))
        if not AR.close(mp.maph, RAP.mean_defined(refs)) and all(not s.startswith("T") or s == "T1" for s in case["car"] + case["ped"] + (case.get("bic") or [])):
            bad("maph-value", "mAPH %r, reference %s" % (mp.maph, RAP.mean_defined(refs)))
        acc.state(("map", "".join(case["car"]), "".join(case["ped"]), None if case.get("bic") is None else "".join(case["bic"]), tuple(min(g, 2) for g in case["G"])),
                  nontrivial=(refs[0] is None) != (refs[1] is None) or (refs[0] not in (None, 0, 1)))
    elif lay == "b":
        ests = [G.mk3d(s) for s in case["ests"]]
        gts = [G.mk3d(s) for s in case["gts"]]
        labels = [AutowareLabel.CAR, AutowareLabel.PEDESTRIAN]
        mode = MatchingMode[case["mode"]]
        res = get_object_results(EvaluationTask.DETECTION, ests, gts, labels, MatchingLabelPolicy[case["policy"]], mode)
        wf = _weight_fn(case, ests, gts)
        for thr in THR_LADDER[case["mode"]]:
            acc.exec()
            mp = Map(divide_objects(res, labels), divide_objects_to_num(gts, labels), labels, mode, [thr, thr])
            _check_maps(case, [mp], [res], labels, case["policy"], wf, acc, lambda s, m: bad(s, m + " thr=%s" % thr),
                        lambda lab: sum(1 for g in gts if g.semantic_label.label == lab))
            acc.state(("b", case["mode"], case["policy"], thr, tuple(round(a.ap, 6) for a in mp.aps + mp.aphs)),
                      nontrivial=any(0 < a.ap < 1 for a in mp.aps + mp.aphs))
    else:
        fr_id, ego = case["frame"], tuple(case["ego"])
        m = F.manager("detection", fr_id, dict(matching_label_policy=case["policy"], center_distance_thresholds=[[1.0, 1.0], [0.4, 2.0]],
                                                plane_distance_thresholds=[2.0], iou_2d_thresholds=[0.3], iou_3d_thresholds=[0.2]))
        labels = m.target_labels
        m.frame_results = []
        frs = []
        for rep, crit in enumerate(("box_per_label", "ring", "box_per_label:reversed")):
            ests = [G.mk3d(dict(s, score=round(s["score"] - 0.003 * rep, 4)), fr_id, ego) for s in case["ests"]]
            gts = [G.mk3d(s, fr_id, ego) for s in case["gts"]]
            wf = _weight_fn(case, ests, gts)
            acc.exec()
            if crit.endswith(":reversed"):   # same per-label values, labels listed as [pedestrian, car]
                cc = F.crit_config(m.evaluator_config, {k_: list(reversed(v_)) for k_, v_ in S.CRIT[crit.split(":")[0]].items()}, ("pedestrian", "car"))
            else:
                cc = F.crit_config(m.evaluator_config, S.CRIT[crit])
            fr = m.add_frame_result(100 + rep, F.frame_gt(gts, ego, 100 + rep, str(rep)), ests, cc, F.pf_config(m.evaluator_config, S.THR["loose"]))
            frs.append((fr, wf))

            # plane distances recomputed from the ego-relative construction poses (independent of the library's score)
            def _plane(r, mode, ests=ests, gts=gts):
                if mode != MatchingMode.PLANEDISTANCE or r.ground_truth_object is None:
                    return None
                i, j = G.index_of(r.estimated_object, ests), G.index_of(r.ground_truth_object, gts)
                if i is None or j is None:
                    return None
                se, sg = case["ests"][i], case["gts"][j]
                d = geom.plane_distance_ref((se["x"], se["y"], se["yaw"], se["size"][0], se["size"][1]), (sg["x"], sg["y"], sg["yaw"], sg["size"][0], sg["size"][1]))
                if d is not None and abs(d - r.plane_distance.value) > 1e-6:
                    bad("score:plane-distance", "result %s/%s carries plane distance %r, the construction poses give %r (frame %s)" % (se["uuid"], sg["uuid"], r.plane_distance.value, d, fr_id))
                return d
            AR.VALUE_HOOK[0] = _plane
            _check_maps(case, fr.metrics_score.maps, [fr.object_results], labels, case["policy"], wf, acc,
                        lambda s, mm: bad("frame:" + s, mm + " frame#%d crit=%s" % (rep, crit)),
                        lambda lab: sum(1 for g in fr.frame_ground_truth.objects if g.semantic_label.label == lab))
            acc.state(("c", fr_id, case["policy"], crit, tuple(tuple(round(a.ap, 6) for a in mp.aps) for mp in fr.metrics_score.maps)),
                      nontrivial=any(0 < a.ap < 1 for mp in fr.metrics_score.maps for a in mp.aps))
        AR.VALUE_HOOK[0] = None
        acc.exec()
        sc = m.get_scene_result()

        def wboth(r):
            for fr, wf in frs:
                if any(r is x for x in fr.object_results):
                    return wf(r)
            raise KeyError

        # weight function of a result = the one of its own frame (objects of different frames are distinct instances)
        def wscene(r):
            for fr, wf in frs:
                if any(r is x for x in fr.object_results):
                    return wf(r)
            raise KeyError("object result of no frame")

        _check_maps(case, sc.maps, [fr.object_results for fr, _ in frs], labels, case["policy"], wscene, acc,
                    lambda s, mm: bad("scene:" + s, mm),
                    lambda lab: sum(1 for fr, _ in frs for g in fr.frame_ground_truth.objects if g.semantic_label.label == lab))
        m.frame_results = []
    if lay in ("b", "c") and acc.cases % 499 == 1:
        acc.sample(case)
