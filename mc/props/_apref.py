"""Independent derivation of the AP/APH ranking symbols of real object results (shared by C04, C08, C13)."""
import math
from fractions import Fraction as Fr

from perception_eval.evaluation.matching import MatchingMode

from mc.ref import ap as RAP
from mc.ref import labels as RL

MAXIMIZE = (MatchingMode.IOU2D, MatchingMode.IOU3D)


def bucket_of(r, labels):
    """label bucket (enum member) of a result: estimate label if targeted, else the ground truth's label."""
    el = r.estimated_object.semantic_label.label
    if el in labels:
        return el
    if r.ground_truth_object is not None:
        return r.ground_truth_object.semantic_label.label
    return None


# optional independent score: VALUE_HOOK[0](result, mode) -> float | None (None = use the library's own matching value)
VALUE_HOOK = [None]


def symbol(r, lab, mode, thr, policy):
    """-> (weight 0/1/None, near_boundary)"""
    g = r.ground_truth_object
    if g is None:
        return 0, False
    if g.semantic_label.label != lab:
        return None, False
    v = r.get_matching(mode).value
    if VALUE_HOOK[0] is not None:
        vi = VALUE_HOOK[0](r, mode)
        if vi is not None:
            v = vi
    near = abs(v - thr) < 1e-9
    better = v > thr if mode in MAXIMIZE else v < thr
    ok = better and RL.compatible(policy, r.estimated_object.semantic_label.label.name, g.semantic_label.label.name)
    return (1 if ok else 0), near


def ranking(bucket, lab, mode, thr, policy, weight_fn=None):
    """-> (seq for AP, seq for APH or None, near, ties)"""
    confs = [r.estimated_object.semantic_score for r in bucket]
    ties = len(set(confs)) != len(confs)
    seq, seqh, near = [], [], False
    for r in sorted(bucket, key=lambda x: -x.estimated_object.semantic_score):
        s, n = symbol(r, lab, mode, thr, policy)
        near = near or n
        seq.append(s)
        if weight_fn is not None:
            seqh.append(Fr(weight_fn(r)) if s == 1 else s)
    return seq, (seqh if weight_fn is not None else None), near, ties


def close(got, want, tol=1e-9):
    """library value (float, inf = undefined) vs reference (Fraction or None)."""
    if want is None:
        return got == float("inf")
    return got != float("inf") and abs(float(want) - got) <= tol
