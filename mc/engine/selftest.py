"""Engine self-test on a toy space: the explorer must visit every unit/case and report a planted violation."""
import sys
import types

from mc.engine import core

toy = types.ModuleType("mc.engine._toy")
toy.units = lambda tier, seed: [{"lo": i * 10, "hi": i * 10 + 10} for i in range(8)]


def _run(unit, acc):
    for x in range(unit["lo"], unit["hi"]):
        acc.case(); acc.exec(); acc.compared()
        acc.state(x % 7, nontrivial=x % 7 != 0)
        if x == 53:
            acc.violation("planted", "x=53", {"x": x})


toy.run_unit = _run
sys.modules[toy.__name__] = toy
acc = core.explore(toy, "quick", 0, workers=4)
assert acc.cases == 80 and acc.transitions == 80 and len(acc.classes) == 7 and len(acc.nontrivial) == 6, acc.__dict__
assert acc.viol_count == {"planted": 1} and acc.violations[0]["case"] == {"x": 53}
print("engine selftest ok")
