"""Bounded exhaustive exploration engine.

A property module (mc/props/Cxx.py) provides

    ID           = "Cxx"
    RULE         = "how cases are enumerated / what makes a case non-trivial"
    ASSUMPTIONS  = [...]
    def units(tier, seed) -> list            # JSON-able work units; together they are the finite space
    def run_unit(unit, acc)                   # enumerates *every* case of the unit, calls the real code
    def check_case(case, acc)                 # one fully explicit case (used by run_unit and by --replay)
    def bounds(tier, seed) -> dict            # stated bounds for the evidence file

`acc` is an Acc: it counts executions of the real seam (transitions), distinct canonical
states / abstract classes (states), executions compared with the reference model (validated),
non-trivial distinct classes, skipped cases by reason, and violations.

The explorer never samples: `units` is the whole space, every unit is executed, and the parent
verifies that every unit reported back.  VERIF_SEED only selects which finite family is
enumerated.
"""
from __future__ import annotations

import collections
import hashlib
import json
import multiprocessing as mp
import os
import sys
import time
import traceback
from typing import Any, Dict, List, Optional

MAX_VIOL_PER_UNIT = 5  # kept per (unit, signature); all are counted
MAX_SAMPLES = 4


def _h(key) -> int:
    """Deterministic 64-bit hash of a canonical key (any repr-able structure)."""
    return int.from_bytes(hashlib.blake2b(repr(key).encode(), digest_size=8).digest(), "big")


class Acc:
    """Per-unit accumulator (lives in a worker, merged by the parent)."""

    def __init__(self) -> None:
        self.transitions = 0
        self.validated = 0
        self.cases = 0
        self.classes = set()
        self.nontrivial = set()
        self.outcomes = set()
        self.skipped = collections.Counter()
        self.viol_count = collections.Counter()
        self.violations: List[Dict[str, Any]] = []
        self.samples: List[Any] = []
        self.notes = collections.Counter()

    # -- counting -------------------------------------------------------------------------
    def case(self, n: int = 1) -> None:
        self.cases += n

    def exec(self, n: int = 1) -> None:
        """n executions of the real seam."""
        self.transitions += n

    def compared(self, n: int = 1) -> None:
        """n executions whose outcome was compared with the reference model / invariant."""
        self.validated += n

    def state(self, key, nontrivial: bool = False) -> None:
        h = _h(key)
        self.classes.add(h)
        if nontrivial:
            self.nontrivial.add(h)

    def outcome(self, key) -> None:
        self.outcomes.add(_h(key))

    def skip(self, reason: str, n: int = 1) -> None:
        self.skipped[reason] += n

    def note(self, what: str, n: int = 1) -> None:
        self.notes[what] += n

    def sample(self, case) -> None:
        if len(self.samples) < MAX_SAMPLES:
            self.samples.append(case)

    def violation(self, signature: str, message: str, case) -> None:
        """signature: stable class of the failing input (matched against known_findings.txt)."""
        self.viol_count[signature] += 1
        if self.viol_count[signature] <= MAX_VIOL_PER_UNIT:
            self.violations.append({"signature": signature, "message": message, "case": case})

    # -- merging --------------------------------------------------------------------------
    def dump(self) -> dict:
        return self.__dict__

    def merge(self, other: "Acc") -> None:
        self.transitions += other.transitions
        self.validated += other.validated
        self.cases += other.cases
        self.classes |= other.classes
        self.nontrivial |= other.nontrivial
        self.outcomes |= other.outcomes
        self.skipped.update(other.skipped)
        self.notes.update(other.notes)
        self.viol_count.update(other.viol_count)
        have = collections.Counter(v["signature"] for v in self.violations)
        for v in other.violations:
            selfc = isinstance(v.get("case"), dict) and bool(v["case"].get("warm"))
            if have[v["signature"]] < 10 or (selfc and have[(v["signature"], "self-contained")] < 4):
                self.violations.append(v)
                have[v["signature"]] += 1
                if selfc:
                    have[(v["signature"], "self-contained")] += 1
        for s in other.samples:
            if len(self.samples) < MAX_SAMPLES:
                self.samples.append(s)


_MODULE = None


def _worker_init(modname: str) -> None:
    global _MODULE
    import importlib

    _MODULE = importlib.import_module(modname)
    if hasattr(_MODULE, "worker_init"):
        _MODULE.worker_init()


_HISTORY = []   # indices of the units this worker process has executed so far, in order


def _worker_run(arg):
    idx, unit = arg
    acc = Acc()
    before = list(_HISTORY)
    _HISTORY.append(idx)
    try:
        _MODULE.run_unit(unit, acc)
    except Exception:  # a crash of the harness itself (not of the code under test)
        return idx, None, traceback.format_exc()
    for v in acc.violations:  # remember the unit: a history-dependent violation is replayed through its whole unit
        v["unit"] = unit
        # ... and the units this worker ran before it: state left in the library by EARLIER units (a module- or class-level cache) is
        # replayed through the worker's whole unit sequence
        v["history_idx"] = before + [idx]
    return idx, acc, None


def explore(module, tier: str, seed: int, workers: Optional[int] = None) -> Acc:
    """Run every unit of the module's space; returns the merged accumulator.

    Raises RuntimeError if any unit failed to report (harness error, never a verdict)."""
    units = module.units(tier, seed)
    total = Acc()
    total.n_units = len(units)
    if workers is None:
        workers = int(os.environ.get("VERIF_WORKERS", "0")) or min(16, os.cpu_count() or 1)
    workers = max(1, min(workers, len(units)))
    done = set()
    errors = []
    if workers == 1:
        _worker_init(module.__name__)
        results = map(_worker_run, enumerate(units))
        pool = None
    else:
        ctx = mp.get_context("fork")
        pool = ctx.Pool(workers, initializer=_worker_init, initargs=(module.__name__,))
        results = pool.imap_unordered(_worker_run, list(enumerate(units)), chunksize=1)
    try:
        for idx, acc, err in results:
            if err is not None:
                errors.append((idx, err))
                continue
            done.add(idx)
            total.merge(acc)
    finally:
        if pool is not None:
            pool.close()
            pool.join()
    if errors:
        raise RuntimeError("harness error in unit %r:\n%s" % (units[errors[0][0]], errors[0][1]))
    if len(done) != len(units):
        raise RuntimeError("not every unit reported: %d of %d" % (len(done), len(units)))
    return total
