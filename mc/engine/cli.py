"""./check Cxx [--tier quick|thorough] [--replay FILE]

exit 0  property held on everything explored (KNOWN-FINDING lines may be printed)
exit 1  VIOLATION property=<id> replay=<path>
exit 2  harness error (never a verdict about the code under test)
"""
from __future__ import annotations

import argparse
import hashlib
import importlib
import json
import os
import shutil
import subprocess
import sys
import time

VERIF = os.path.dirname(os.path.dirname(os.path.dirname(os.path.abspath(__file__))))
# development only: VERIF_DEV_REPO=<scratch worktree> runs a check against a scratch copy of the repository (seeded changes tried in
# parallel); such a run never writes evidence (the `check` script forces VERIF_KEEP_EVIDENCE=1) - registered commands always use /repo
REPO_PKG = os.path.join(os.environ.get("VERIF_DEV_REPO") or "/repo", "perception_eval")
FINDINGS_FILE = os.path.join(VERIF, "known_findings.txt")


def load_findings():
    """-> dict property -> {signature: text} for `finding:` lines; `fixed:` lines suppress nothing."""
    out = {}
    if not os.path.exists(FINDINGS_FILE):
        return out
    for line in open(FINDINGS_FILE):
        line = line.strip()
        if not line.startswith("finding:"):
            continue
        parts = line[len("finding:"):].split()
        kv = dict(p.split("=", 1) for p in parts[:2] if "=" in p)
        if "property" in kv and "key" in kv:
            out.setdefault(kv["property"], {})[kv["key"]] = " ".join(parts[2:])
    return out


def _jsonable(x):
    try:
        json.dumps(x)
        return x
    except TypeError:
        return json.loads(json.dumps(x, default=repr))


def write_replay(pid, tier, seed, v):
    d = os.path.join(VERIF, "replays", pid)
    os.makedirs(d, exist_ok=True)
    body = {"property": pid, "tier": tier, "seed": seed, "signature": v["signature"],
            "message": v["message"], "case": _jsonable(v["case"])}
    body["mode"] = v.get("replay_mode", "case")
    if body["mode"] == "unit":
        body["unit"] = _jsonable(v["unit"])
    if body["mode"] == "history":
        body["units"] = _jsonable(v["history_units"])
    sha = hashlib.sha1(json.dumps(body["case"], sort_keys=True).encode()).hexdigest()[:12]
    path = os.path.join(d, sha + ".json")
    with open(path, "w") as f:
        json.dump(body, f, indent=1, sort_keys=True)
    return path


def validate_evidence(path):
    """Validate through jsonschema in the tooling venv (not installed in /venv)."""
    schema = "/root/.vp/EVIDENCE.schema.json"
    vt = shutil.which("python3-vt")
    if not vt or not os.path.exists(schema):
        return None
    code = ("import json,sys,jsonschema;"
            "jsonschema.validate(json.load(open(sys.argv[1])),json.load(open(sys.argv[2])))")
    env = {k: v for k, v in os.environ.items() if k not in ("PYTHONPATH", "PYTHONHOME")}
    r = subprocess.run([vt, "-c", code, path, schema], capture_output=True, text=True, env=env)
    if r.returncode != 0:
        raise RuntimeError("evidence file does not validate: " + r.stderr[-2000:])
    return True


def main(argv=None):
    ap = argparse.ArgumentParser()
    ap.add_argument("prop")
    ap.add_argument("--tier", choices=["quick", "thorough"], default=None)
    ap.add_argument("--replay", default=None)
    ap.add_argument("--workers", type=int, default=None)
    a = ap.parse_args(argv)
    tier = a.tier or os.environ.get("VERIF_TIER") or "quick"
    if tier not in ("quick", "thorough"):
        tier = "quick"
    try:
        seed = int(os.environ.get("VERIF_SEED", "0"))
    except ValueError:
        seed = 0
    pid = a.prop

    import logging
    import warnings

    logging.disable(logging.CRITICAL)
    warnings.filterwarnings("ignore")
    import perception_eval  # noqa: the code under test, from /repo's working tree

    if not os.path.realpath(perception_eval.__file__).startswith(REPO_PKG + "/"):
        print("HARNESS-ERROR perception_eval imported from %s, not /repo" % perception_eval.__file__)
        return 2

    from mc.engine import core, scratch

    module = importlib.import_module("mc.props." + pid)
    findings = load_findings().get(pid, {})

    t0 = time.time()
    scratch.root()  # created before workers fork, removed when the run ends
    try:
        if a.replay:
            os.environ["VERIF_REPLAY"] = "1"   # single-process replay: nothing is prepared by other units
            body = json.load(open(a.replay))
            acc = core.Acc()
            core._worker_init(module.__name__)
            if body.get("mode") == "unit" and body.get("unit") is not None:
                # history-dependent violation: the replay artefact is the unit's whole case sequence, executed in this fresh process
                module.run_unit(body["unit"], acc)
                keep = body.get("signature")
                if keep in acc.viol_count:   # report the recorded violation only (the unit may contain others)
                    acc.violations = [v for v in acc.violations if v["signature"] == keep][:1]
                    acc.viol_count = type(acc.viol_count)({keep: acc.viol_count[keep]})
            elif body.get("mode") == "history" and body.get("units"):
                # violation that depends on state left in the library by earlier units of the same worker process: the replay artefact is that
                # worker's unit sequence up to and including the failing unit, executed in order in this fresh process
                for u_ in body["units"]:
                    module.run_unit(u_, acc)
                keep = body.get("signature")
                if keep in acc.viol_count:
                    acc.violations = [v for v in acc.violations if v["signature"] == keep][:1]
                    acc.viol_count = type(acc.viol_count)({keep: acc.viol_count[keep]})
            else:
                module.check_case(body["case"], acc)
            n_units = 1
        else:
            acc = core.explore(module, tier, seed, a.workers)
            n_units = acc.n_units
    except Exception as e:  # harness failure
        import traceback

        traceback.print_exc()
        print("HARNESS-ERROR %s: %s" % (type(e).__name__, e))
        return 2
    finally:
        scratch.cleanup()

    # classify ---------------------------------------------------------------------------
    known, new = {}, []
    for v in acc.violations:
        if v["signature"] in findings:
            known.setdefault(v["signature"], v)
        else:
            new.append(v)
    n_known = sum(c for s, c in acc.viol_count.items() if s in findings)
    n_new = sum(c for s, c in acc.viol_count.items() if s not in findings)
    for sig in sorted(s for s in acc.viol_count if s in findings):
        print("KNOWN-FINDING: property=%s key=%s occurrences=%d %s" % (pid, sig, acc.viol_count[sig], findings[sig]))

    rc = 0
    replays = []
    if new and not a.replay:
        # re-execute each reported case once from its dump: a verdict that does not reproduce
        # is a harness error, not a violation
        by_sig = {}
        unreproduced = []
        for v in new:
            by_sig.setdefault(v["signature"], []).append(v)
        for sig, cands in by_sig.items():
            # cases that carry their own call sequence (e.g. warm-up calls) are the most likely to reproduce alone: try them first
            cands.sort(key=lambda c: 0 if (isinstance(c.get("case"), dict) and c["case"].get("warm")) else 1)
            # every verdict is re-executed in a FRESH process from its replay file before it is reported: first a recorded case
            # alone; if no recorded case reproduces alone (the violation depends on the calls made before it), the whole unit a
            # case was found in.  Several recorded cases of the signature are tried; the first that reproduces is reported.
            v = None
            for mode in ("case", "unit", "history"):
                for cand in cands[:6 if mode == "case" else (3 if mode == "unit" else 2)]:
                    if mode == "unit" and cand.get("unit") is None:
                        continue
                    if mode == "history":
                        if not cand.get("history_idx") or len(cand["history_idx"]) < 2:
                            continue
                        all_units = module.units(tier, seed)
                        cand["history_units"] = [all_units[i] for i in cand["history_idx"]]
                    cand["replay_mode"] = mode
                    path = write_replay(pid, tier, seed, cand)
                    env = dict(os.environ, VERIF_KEEP_EVIDENCE="1")
                    r = subprocess.run([sys.executable, "-W", "ignore", "-m", "mc.engine.cli", pid, "--replay", path], capture_output=True,
                                       text=True, env=env, cwd=VERIF)
                    if r.returncode == 1 and ("signature=%s" % sig) in r.stdout:
                        v = cand
                        break
                    if r.returncode == 2 and mode == "history":
                        continue     # a unit sequence that cannot be re-run alone (e.g. it relies on tables prepared by other workers): not reproduced
                    if r.returncode == 2:
                        print("HARNESS-ERROR replay (%s) of a violation crashed:\n%s" % (mode, (r.stdout + r.stderr)[-1500:]))
                        scratch.cleanup()
                        return 2
                if v is not None:
                    break
            if v is None:
                unreproduced.append((sig, cands[0]))
                continue
            path = write_replay(pid, tier, seed, v)
            replays.append(path)
            print("VIOLATION property=%s replay=%s" % (pid, path))
            print("  signature=%s count=%d" % (v["signature"], acc.viol_count[v["signature"]]))
            print("  " + v["message"][:1500])
        for sig, cand in unreproduced:
            # observed during the exploration but not reproducible from a fresh process (depends on state left by other units)
            print("NOTE unreproduced signature=%s count=%d (observed in the exploration, not reproducible in a fresh process from a case, its unit or its worker's unit sequence)" % (
                sig, acc.viol_count[sig]))
        if not replays:
            print("HARNESS-ERROR no observed violation reproduced in a fresh process (recorded cases alone, then their units, then their workers' unit sequences): %s" % [s_ for s_, _ in unreproduced])
            print(json.dumps(_jsonable({k: x for k, x in unreproduced[0][1].items() if k not in ("unit", "history_idx", "history_units")}), indent=1)[:3000])
            scratch.cleanup()
            return 2
        rc = 1
        scratch.cleanup()
    elif new and a.replay:
        for v in new:
            print("VIOLATION property=%s replay=%s" % (pid, a.replay))
            print("  signature=%s" % v["signature"])
            print("  " + v["message"][:1500])
        rc = 1

    wall = time.time() - t0
    if not a.replay:
        b = module.bounds(tier, seed) if hasattr(module, "bounds") else {}
        capped = bool(acc.notes.get("cap_hit"))
        cov = {
            "states": len(acc.classes),
            "transitions": acc.transitions,
            "traces_validated_against_impl": acc.validated,
            "evaluations": acc.cases,
            "distinct_nontrivial": len(acc.nontrivial),
            "distinct_outcomes": len(acc.outcomes),
            "rule": module.RULE,
            "samples": [_jsonable(s) for s in acc.samples] or [{"note": "no case generated"}],
            "exhaustive": not capped,
            "units": n_units,
            "bounds": _jsonable(b),
            "skipped": dict(acc.skipped),
            "notes": dict(acc.notes),
            "known_finding_occurrences": n_known,
            "explanation": "bounded exhaustive exploration of the real implementation: every case of the "
                           "stated finite space was executed on /repo's working tree and checked against "
                           "the reference model / invariant",
        }
        ev = {
            "property_id": pid, "tier": tier, "seed": seed, "level": "model_checking",
            "coverage": cov, "assumptions": list(getattr(module, "ASSUMPTIONS", [])),
            "wall_s": round(wall, 3), "violations": n_new,
        }
        evdir = os.path.join(VERIF, "evidence")
        if os.environ.get("VERIF_KEEP_EVIDENCE"):  # try-out runs against seeded changes must not overwrite committed evidence
            evdir = os.path.join(scratch.root(), "evidence")
        os.makedirs(evdir, exist_ok=True)
        path = os.path.join(evdir, pid + ".json")
        tmp = path + ".tmp"
        with open(tmp, "w") as f:
            json.dump(ev, f, indent=1, sort_keys=True)
        os.replace(tmp, path)
        try:
            validate_evidence(path)
        except Exception as e:
            print("HARNESS-ERROR %s" % e)
            return 2
        print("%s tier=%s seed=%d units=%d cases=%d transitions=%d states=%d nontrivial=%d outcomes=%d "
              "validated=%d skipped=%s known=%d violations=%d wall=%.1fs" % (
                  pid, tier, seed, n_units, acc.cases, acc.transitions, len(acc.classes), len(acc.nontrivial),
                  len(acc.outcomes), acc.validated, dict(acc.skipped), n_known, n_new, wall))
        if acc.transitions == 0 or len(acc.classes) == 0:
            print("HARNESS-ERROR vacuous exploration (no execution / no state)")
            return 2
    else:
        print("%s replay: violations=%d known=%d" % (pid, n_new, n_known))
    return rc


if __name__ == "__main__":
    sys.exit(main())
