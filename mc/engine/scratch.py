"""Run-level scratch directory (outside /repo and /verif).

The parent process creates one root before forking workers; workers make sub-directories under
it; the parent removes the whole root when the run ends (workers' atexit handlers do not run
under multiprocessing, so nothing relies on them)."""
import atexit
import os
import shutil
import tempfile

_ROOT = None
_OWNER = None


def _base():
    for b in ("/dev/shm", tempfile.gettempdir()):
        if os.path.isdir(b) and os.access(b, os.W_OK):
            return b
    return tempfile.gettempdir()


def root():
    global _ROOT, _OWNER
    if _ROOT is None:
        _ROOT = tempfile.mkdtemp(prefix="verif_mc_%d_" % os.getpid(), dir=_base())
        _OWNER = os.getpid()
        atexit.register(cleanup)
    return _ROOT


def new_dir(tag="d"):
    return tempfile.mkdtemp(prefix="%s_%d_" % (tag, os.getpid()), dir=root())


def cleanup():
    global _ROOT
    if _ROOT is not None and _OWNER == os.getpid():
        shutil.rmtree(_ROOT, ignore_errors=True)
        _ROOT = None
