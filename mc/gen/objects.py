"""Object factory: JSON-able specs -> real library objects.

A 3D spec is a dict with ego-relative pose (x, y, z, yaw) plus label/score/uuid/...; `frame` says in
which frame the object is *rendered* ("base_link" keeps the pose, "map" moves it by the ego pose)."""
import numpy as np
from pyquaternion import Quaternion

from perception_eval.common.label import AutowareLabel, Label, TrafficLightLabel
from perception_eval.common.object import DynamicObject
from perception_eval.common.object2d import DynamicObject2D, Roi
from perception_eval.common.schema import FrameID, Visibility
from perception_eval.common.shape import Shape, ShapeType
from perception_eval.common.transform import HomogeneousMatrix, TransformDict

from mc.ref import geom

# jitter ladders: pairwise incommensurate offsets (selected by VERIF_SEED) so generic scenes have no ties
JITTER = [(0.013, 0.029), (0.041, 0.007), (0.023, 0.037), (0.003, 0.019), (0.031, 0.011)]
EGO_MENU = [(0.0, 0.0, 0.0), (10.0, -5.0, 0.7), (-300.0, 120.0, -2.4), (1000.0, 1000.0, 3.141592653589793)]


def jitter(seed):
    return JITTER[seed % len(JITTER)]


def ego_menu(seed):
    k = seed % len(EGO_MENU)
    return EGO_MENU[k:] + EGO_MENU[:k]


def label(name, family="autoware", orig=None, attrs=None):
    enum = AutowareLabel if family == "autoware" else TrafficLightLabel
    m = enum[name]
    return Label(m, orig if orig is not None else m.value, list(attrs or []))


def transforms(ego):
    """TransformDict holding the ego(base_link) -> map matrix for ego pose (x, y, yaw)."""
    m = HomogeneousMatrix((ego[0], ego[1], 0.0), Quaternion(axis=[0, 0, 1], angle=ego[2]), FrameID.BASE_LINK, FrameID.MAP)
    return TransformDict(m)


def ego2map_matrix(ego):
    """ego = (x, y, yaw) or (x, y, z, yaw, pitch, roll)."""
    if len(ego) == 6:
        return HomogeneousMatrix((ego[0], ego[1], ego[2]), Quaternion(geom.quat_from_ypr(ego[3], ego[4], ego[5])), FrameID.BASE_LINK, FrameID.MAP)
    return HomogeneousMatrix((ego[0], ego[1], 0.0), Quaternion(axis=[0, 0, 1], angle=ego[2]), FrameID.BASE_LINK, FrameID.MAP)


def mk3d(s, frame="base_link", ego=None):
    x, y, yaw = s["x"], s["y"], s.get("yaw", 0.0)
    zoff = 0.0
    if frame == "map":
        if len(ego) == 6:   # level ego at a height: (x, y, z, yaw, 0, 0)
            assert ego[4] == 0.0 and ego[5] == 0.0, "map rendering of specs supports level ego poses only"
            x, y, yaw = geom.ego_to_map(x, y, yaw, (ego[0], ego[1], ego[3]))
            zoff = ego[2]
        else:
            x, y, yaw = geom.ego_to_map(x, y, yaw, ego)
    q = Quaternion(axis=[0, 0, 1], angle=yaw)
    if s.get("pitch") or s.get("roll"):
        q = Quaternion(geom.quat_from_ypr(yaw, s.get("pitch", 0.0), s.get("roll", 0.0)))
    if s.get("qneg"):
        q = -q
    vel = s.get("vel")
    vis = s.get("vis")
    return DynamicObject(
        unix_time=s.get("t", 100),
        frame_id=FrameID.MAP if frame == "map" else FrameID.BASE_LINK,
        position=(float(x), float(y), float(s.get("z", 0.0)) + zoff),
        orientation=q,
        shape=Shape(ShapeType.BOUNDING_BOX, tuple(float(v) for v in s.get("size", (2.0, 4.0, 1.5)))),
        velocity=tuple(vel) if vel is not None else None,
        semantic_score=s.get("score", 1.0),
        semantic_label=label(s.get("label", "CAR"), orig=s.get("name"), attrs=s.get("attrs")),
        pointcloud_num=s.get("pts", 10),
        uuid=s.get("uuid"),
        visibility=Visibility[vis] if vis else None,
    )


CAMS = {"CAM_FRONT_LEFT": FrameID.CAM_FRONT_LEFT, "CAM_BACK_LEFT": FrameID.CAM_BACK_LEFT, "CAM_FRONT": FrameID.CAM_FRONT, "CAM_BACK": FrameID.CAM_BACK, "CAM_FRONT_RIGHT": FrameID.CAM_FRONT_RIGHT, "CAM_FRONT_LOWER": FrameID.CAM_FRONT_LOWER, "CAM_TRAFFIC_LIGHT": FrameID.CAM_TRAFFIC_LIGHT,
        "CAM_TRAFFIC_LIGHT_NEAR": FrameID.CAM_TRAFFIC_LIGHT_NEAR, "CAM_TRAFFIC_LIGHT_FAR": FrameID.CAM_TRAFFIC_LIGHT_FAR}


def mk2d(s):
    roi = s.get("roi")
    return DynamicObject2D(
        unix_time=s.get("t", 100),
        frame_id=CAMS[s.get("cam", "CAM_FRONT")],
        semantic_score=s.get("score", 1.0),
        semantic_label=label(s.get("label", "CAR"), family=s.get("family", "autoware")),
        roi=tuple(roi) if roi is not None else None,
        uuid=s.get("uuid"),
        **({"position": tuple(float(v) for v in s["pos"])} if s.get("pos") is not None else {}),
    )


def index_of(obj, objs):
    """identity index (DynamicObject.__eq__ compares time/label/pose only)."""
    for i, o in enumerate(objs):
        if o is obj:
            return i
    return None
