"""Harness around the per-frame evaluation seams: configs, managers, hand-built ground-truth frames."""
import contextlib
import io
import os

from perception_eval.common.dataset import FrameGroundTruth
from perception_eval.config import PerceptionEvaluationConfig
from perception_eval.evaluation.result.perception_frame_config import CriticalObjectFilterConfig, PerceptionPassFailConfig
from perception_eval.evaluation.result.perception_frame_result import PerceptionFrameResult

from mc.engine import scratch
from mc.gen import objects as G
from mc.gen import t4

BASE3D = {
    "target_labels": ["car", "pedestrian"], "max_x_position": 100.0, "max_y_position": 100.0, "min_point_numbers": [0, 0],
    "label_prefix": "autoware", "center_distance_thresholds": [1.0], "plane_distance_thresholds": [1.0],
    "iou_2d_thresholds": [0.3], "iou_3d_thresholds": [0.3],
}
_CACHE = {}
_DIR = [None]


def _dir():
    if _DIR[0] is None or not os.path.isdir(_DIR[0]):
        _DIR[0] = scratch.new_dir("frames")
        _CACHE.clear()
    return _DIR[0]


def eval_config(task="detection", frame_id="base_link", overrides=None, datasets=None):
    key = ("cfg", task, frame_id, repr(sorted((overrides or {}).items())), tuple(datasets or ()))
    d = _dir()
    if key not in _CACHE:
        cfg = dict(BASE3D)
        cfg["evaluation_task"] = task
        cfg.update(overrides or {})
        cfg = {k: v for k, v in cfg.items() if v is not None}
        _CACHE[key] = PerceptionEvaluationConfig(list(datasets or ["/nonexistent"]), frame_id, os.path.join(d, "res%d" % len(_CACHE)), cfg)
    return _CACHE[key]


def tiny_dataset():
    """one-sample dataset so that a PerceptionEvaluationManager can be constructed."""
    d = _dir()
    key = ("tiny",)
    if key not in _CACHE:
        root = os.path.join(d, "tiny_ds")
        t4.write(root, [dict(ts=1000000, ego=(0.0, 0.0, 0.0), anns=[dict(inst="i0", cat="car", pos=(5.0, 1.0, 0.5), yaw=0.2,
                                                                         size=(2.0, 4.0, 1.5), npts=10, vis="full")])], ["car"])
        _CACHE[key] = root
    return _CACHE[key]


def manager(task="detection", frame_id="base_link", overrides=None, datasets=None):
    from perception_eval.manager import PerceptionEvaluationManager

    key = ("mgr", task, frame_id, repr(sorted((overrides or {}).items())), tuple(datasets or ()))
    _dir()
    if key not in _CACHE:
        ec = eval_config(task, frame_id, overrides, datasets or [tiny_dataset()])
        with contextlib.redirect_stderr(io.StringIO()), contextlib.redirect_stdout(io.StringIO()):
            _CACHE[key] = PerceptionEvaluationManager(ec)
    return _CACHE[key]


def frame_gt(gt_objects, ego, unix_time=100, name="0"):
    return FrameGroundTruth(unix_time, name, list(gt_objects), transforms=[G.ego2map_matrix(ego)])


def crit_config(ec, crit, labels=("car", "pedestrian")):
    """crit: dict with optional max_x / max_y / max_d / min_d / min_pts / conf / uuids / ignore_attributes (per-label lists)."""
    return CriticalObjectFilterConfig(
        ec, list(labels), ignore_attributes=crit.get("ignore_attributes"),
        max_x_position_list=crit.get("max_x"), max_y_position_list=crit.get("max_y"),
        max_distance_list=crit.get("max_d"), min_distance_list=crit.get("min_d"),
        min_point_numbers=crit.get("min_pts"), confidence_threshold_list=crit.get("conf"), target_uuids=crit.get("uuids"))


def pf_config(ec, thr, labels=("car", "pedestrian")):
    return PerceptionPassFailConfig(ec, list(labels), matching_threshold_list=thr)


def evaluate_frame(ec, object_results, gt_objects, ego, crit, thr, labels=("car", "pedestrian"), previous=None, unix_time=100, name="0", pf_labels=None,
                   pf_thr=None):
    """pf_labels / pf_thr: label order and thresholds of the pass/fail configuration when they are listed differently from the critical filter's."""
    fg = frame_gt(gt_objects, ego, unix_time, name)
    fr = PerceptionFrameResult(list(object_results), fg, ec.metrics_config, crit_config(ec, crit, labels),
                               pf_config(ec, pf_thr if pf_thr is not None else thr, pf_labels if pf_labels is not None else labels),
                               unix_time, ec.target_labels)
    fr.evaluate_frame(previous_result=previous)
    return fr
