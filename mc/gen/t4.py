"""Minimal T4 / nuScenes-format dataset writer (annotation tables only).

samples: list of dict(ts, ego=(x, y, yaw), anns=[dict(inst, cat, pos=(x,y,z), yaw, size=(w,l,h), npts, vis, attrs=[...])])
All poses are GLOBAL (map frame), as in the real format.  The lidar is calibrated at the ego origin."""
import json
import os

from mc.ref import geom


def tok(prefix, i):
    return "%s%04d" % (prefix, i)


def quat_z(yaw):
    return list(geom.quat_from_ypr(yaw))


def write(root, samples, categories, vis_levels=("full", "most", "partial", "none"), lidar_channel="LIDAR_CONCAT",
          extra_camera=False, attributes=("vehicle_state.moving",), scene_name="scene0", with_visibility=True, scene_of=None, raw=False):
    """scene_of: optional list, scene index of every sample row (rows of several scenes may alternate in the sample table, as in a
    dataset merged from overlapping logs and sorted by time); prev/next links stay inside a scene.
    raw: also write the sensor files (a small point cloud per lidar key frame, a small image per camera key frame, a map image) so that the
    dataset can be loaded with load_raw_data=True; a sample may then give the camera its own ego pose (key "cam_ego")."""
    ann_dir = os.path.join(root, "annotation")
    os.makedirs(ann_dir, exist_ok=True)
    T = {k: [] for k in ["category", "attribute", "visibility", "instance", "sensor", "calibrated_sensor", "ego_pose", "log",
                         "scene", "sample", "sample_data", "sample_annotation", "map"]}
    cat_tok = {}
    for i, c in enumerate(categories):
        cat_tok[c] = tok("cat", i)
        T["category"].append(dict(token=cat_tok[c], name=c, description=""))
    attr_tok = {}
    for i, a in enumerate(attributes):
        attr_tok[a] = tok("attr", i)
        T["attribute"].append(dict(token=attr_tok[a], name=a, description=""))
    if with_visibility:
        for v in vis_levels:
            T["visibility"].append(dict(token=v, level=v, description=""))
    T["sensor"].append(dict(token="sens0", channel=lidar_channel, modality="lidar"))
    T["calibrated_sensor"].append(dict(token="cs0", sensor_token="sens0", translation=[0, 0, 0], rotation=[1, 0, 0, 0], camera_intrinsic=[]))
    if extra_camera:
        T["sensor"].append(dict(token="sens1", channel="CAM_FRONT", modality="camera"))
        T["calibrated_sensor"].append(dict(token="cs1", sensor_token="sens1", translation=[1.5, 0, 1.2], rotation=[0.5, -0.5, 0.5, -0.5],
                                           camera_intrinsic=[[1000, 0, 640], [0, 1000, 360], [0, 0, 1]]))
    T["log"].append(dict(token="log0", logfile="", vehicle="v", date_captured="2020-01-01", location="loc"))
    T["map"].append(dict(token="map0", log_tokens=["log0"], category="semantic_prior", filename="maps/none.png" if raw else ""))
    if raw:
        import numpy as _np
        from PIL import Image as _Image
        os.makedirs(os.path.join(root, "maps"), exist_ok=True)
        _Image.fromarray(_np.zeros((4, 4), dtype=_np.uint8)).save(os.path.join(root, "maps", "none.png"))
        os.makedirs(os.path.join(root, "data", lidar_channel), exist_ok=True)
        os.makedirs(os.path.join(root, "data", "CAM_FRONT"), exist_ok=True)
    n = len(samples)
    scene_of = list(scene_of) if scene_of is not None else [0] * n
    for sc in sorted(set(scene_of)):
        rows = [i for i in range(n) if scene_of[i] == sc]
        T["scene"].append(dict(token="scene%d" % sc, log_token="log0", nbr_samples=len(rows), first_sample_token=tok("s", rows[0]),
                               last_sample_token=tok("s", rows[-1]), name=scene_name if sc == 0 else "%s_%d" % (scene_name, sc), description=""))
    inst_anns = {}
    aidx = 0
    for i, s in enumerate(samples):
        same = [j for j in range(n) if scene_of[j] == scene_of[i]]
        pos = same.index(i)
        T["sample"].append(dict(token=tok("s", i), timestamp=s["ts"], prev=tok("s", same[pos - 1]) if pos > 0 else "",
                                next=tok("s", same[pos + 1]) if pos < len(same) - 1 else "", scene_token="scene%d" % scene_of[i]))
        if len(s["ego"]) == 3:
            ex, ey, eyaw = s["ego"]
            ez, epitch, eroll = 0.0, 0.0, 0.0
        else:  # (x, y, z, yaw, pitch, roll): tilted ego
            ex, ey, ez, eyaw, epitch, eroll = s["ego"]
        T["ego_pose"].append(dict(token=tok("ep", i), timestamp=s["ts"], rotation=list(geom.quat_from_ypr(eyaw, epitch, eroll)), translation=[ex, ey, ez]))
        T["sample_data"].append(dict(token=tok("sd", i), sample_token=tok("s", i), ego_pose_token=tok("ep", i), calibrated_sensor_token="cs0",
                                     timestamp=s.get("lidar_ts", s["ts"]), fileformat="pcd.bin", is_key_frame=True, height=0, width=0,
                                     filename="data/%s/%d.pcd.bin" % (lidar_channel, i), prev=tok("sd", i - 1) if i > 0 else "",
                                     next=tok("sd", i + 1) if i < n - 1 else ""))
        if raw:
            _np.zeros((10, 5), dtype=_np.float32).tofile(os.path.join(root, "data/%s/%d.pcd.bin" % (lidar_channel, i)))
        if extra_camera:
            cam_ep = tok("ep", i)
            if s.get("cam_ego") is not None:      # the camera image was taken a moment later: its own ego pose record
                cx_, cy_, cyaw_ = s["cam_ego"]
                cam_ep = tok("epc", i)
                T["ego_pose"].append(dict(token=cam_ep, timestamp=s.get("cam_ts", s["ts"]), rotation=list(geom.quat_from_ypr(cyaw_, 0.0, 0.0)), translation=[cx_, cy_, 0.0]))
            ext = "png" if raw else "jpg"
            if raw:
                _Image.fromarray(_np.zeros((48, 64, 3), dtype=_np.uint8)).save(os.path.join(root, "data/CAM_FRONT/%d.png" % i))
            T["sample_data"].append(dict(token=tok("sc", i), sample_token=tok("s", i), ego_pose_token=cam_ep, calibrated_sensor_token="cs1",
                                         timestamp=s.get("cam_ts", s["ts"]), fileformat=ext, is_key_frame=True, height=48 if raw else 720, width=64 if raw else 1280,
                                         filename="data/CAM_FRONT/%d.%s" % (i, ext), prev=tok("sc", i - 1) if i > 0 else "",
                                         next=tok("sc", i + 1) if i < n - 1 else ""))
        for a in s["anns"]:
            t = tok("a", aidx)
            aidx += 1
            rec = dict(token=t, sample_token=tok("s", i), instance_token=a["inst"], visibility_token=a.get("vis", vis_levels[0]),
                       attribute_tokens=[attr_tok[x] for x in a.get("attrs", [])], translation=list(a["pos"]), size=list(a["size"]),
                       rotation=quat_z(a["yaw"]), prev="", next="", num_lidar_pts=a["npts"], num_radar_pts=a.get("radar", 0))
            T["sample_annotation"].append(rec)
            inst_anns.setdefault(a["inst"], dict(cat=a["cat"], anns=[]))["anns"].append(rec)
    for inst, d in inst_anns.items():
        anns = d["anns"]
        for j, r in enumerate(anns):
            r["prev"] = anns[j - 1]["token"] if j > 0 else ""
            r["next"] = anns[j + 1]["token"] if j < len(anns) - 1 else ""
        T["instance"].append(dict(token=inst, category_token=cat_tok[d["cat"]], instance_name="x::%s" % inst, nbr_annotations=len(anns),
                                  first_annotation_token=anns[0]["token"], last_annotation_token=anns[-1]["token"]))
    for k, v in T.items():
        with open(os.path.join(ann_dir, k + ".json"), "w") as f:
            json.dump(v, f)
    return root
