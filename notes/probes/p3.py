import time, math, warnings, logging, tempfile, copy
warnings.filterwarnings("ignore"); logging.disable(logging.CRITICAL)
import numpy as np
from pyquaternion import Quaternion
from perception_eval.common.threshold import set_thresholds
for spec, n, nest in [([["x","y"]],2,True), ([[1.0,"y"]],2,True), ([["x"]],2,True), ([True, False],2,False), ([[1.0,2.0],[3.0]],2,True), ([1.0,2.0],2,True), ([1.0,2.0,3.0],2,True), ((1.0,2.0),2,False), ([[1.0,2.0],3.0],2,True), ([[]],2,True), ([[1.0,2.0,3.0]],2,True),([1.0,[2.0]],2,True), (None,2,False), ("ab",2,False), ("ab",2,True), ([float('nan')],2,False)]:
    try: print(spec, n, nest, "->", set_thresholds(spec, n, nest))
    except Exception as e: print(spec, n, nest, "EXC", type(e).__name__, e)

# interpolation
from perception_eval.common.dataset import FrameGroundTruth, get_now_frame, get_interpolated_now_frame
from perception_eval.common.object import DynamicObject
from perception_eval.common.label import Label, AutowareLabel
from perception_eval.common.schema import FrameID
from perception_eval.common.shape import Shape, ShapeType
from perception_eval.common.transform import HomogeneousMatrix
def obj(x,y,yaw,uuid,frame=FrameID.BASE_LINK, t=0):
    return DynamicObject(unix_time=t, frame_id=frame, position=(x,y,0.0), orientation=Quaternion(axis=[0,0,1], angle=yaw),
        shape=Shape(ShapeType.BOUNDING_BOX,(1,2,1)), velocity=(1.0,0.0,0.0), semantic_score=1.0, semantic_label=Label(AutowareLabel.CAR,"car",[]), uuid=uuid, pointcloud_num=5)
def fr(t, objs, ego=(0,0,0)):
    m = HomogeneousMatrix((ego[0],ego[1],0.0), Quaternion(axis=[0,0,1],angle=ego[2]), FrameID.BASE_LINK, FrameID.MAP)
    return FrameGroundTruth(t, str(t), objs, transforms=[m])
frames = [fr(100000,[obj(1,0,3.0,"A"),obj(5,5,0,"B")],(0,0,0)), fr(200000,[obj(2,0,-3.0,"A"),obj(9,9,0,"C")],(10,0,0.5))]
for q,tol in [(90000,75000),(100000,75000),(150000,75000),(200000,75000),(210000,75000),(150000,20000),(120000,30000), (20000,75000)]:
    f = get_interpolated_now_frame(frames, q, tol)
    n = get_now_frame(frames, q, tol)
    print("q",q,"tol",tol,"near", None if n is None else n.unix_time, "interp", None if f is None else (f.unix_time, f is frames[0], f is frames[1], [(o.uuid, o.frame_id, tuple(np.round(o.state.position,3)), round(o.state.orientation.yaw_pitch_roll[0],3), o.unix_time) for o in f.objects]))
