import itertools, math, warnings, logging, time, collections
warnings.filterwarnings("ignore"); logging.disable(logging.CRITICAL)
import numpy as np
from pyquaternion import Quaternion
from perception_eval.common.object import DynamicObject
from perception_eval.common.label import Label, AutowareLabel
from perception_eval.common.schema import FrameID
from perception_eval.common.shape import Shape, ShapeType
from perception_eval.common.transform import HomogeneousMatrix, TransformDict
from perception_eval.evaluation.matching import PlaneDistanceMatching, IOU2dMatching, IOU3dMatching, CenterDistanceMatching
def obj(x,y,yaw,size,frame=FrameID.BASE_LINK,z=0.0):
    return DynamicObject(100,frame,(x,y,z),Quaternion(axis=[0,0,1],angle=yaw),Shape(ShapeType.BOUNDING_BOX,size),None,0.9,Label(AutowareLabel.CAR,"car",[]))
def corners(x,y,yaw,size):
    w,l,_=size; c,s=math.cos(yaw),math.sin(yaw)
    return [(x+c*a-s*b, y+s*a+c*b) for a,b in [(l/2,w/2),(-l/2,w/2),(-l/2,-w/2),(l/2,-w/2)]]
def ref_plane(e,g):
    ce=corners(*e); cg=corners(*g)
    d=sorted(range(4),key=lambda k:math.hypot(*cg[k]))
    dist=[math.hypot(*cg[k]) for k in d]
    if dist[2]-dist[1]<1e-6: return None
    a,b=d[0],d[1]
    return math.sqrt(0.5*((ce[a][0]-cg[a][0])**2+(ce[a][1]-cg[a][1])**2+(ce[b][0]-cg[b][0])**2+(ce[b][1]-cg[b][1])**2))
def rot(p,phi): c,s=math.cos(phi),math.sin(phi); return (c*p[0]-s*p[1], s*p[0]+c*p[1])
sizes=[(1,1,1),(2,4,1.5),(0.05,5,1)]
yaws=[k*math.pi/7+0.05 for k in range(-6,8,2)]
P=[(8.013,0.029),(3.0,-6.0),(-5.5,2.2),(0.4,0.3)]
off=[(0,0),(0.31,-0.17),(1.2,0.9)]
egos=[(10,-5,0.7),(-300,120,-2.4)]
n=bad=skip=0; worst=0; t=time.time(); invbad=0
for sg,se in itertools.product(sizes,sizes):
  for yg,ye in itertools.product(yaws,yaws):
    for p,o in itertools.product(P,off):
        g=(p[0],p[1],yg,sg); e=(p[0]+o[0],p[1]+o[1],ye,se)
        exp=ref_plane(e,g)
        got=PlaneDistanceMatching(obj(*e),obj(*g)).value
        n+=1
        if exp is None: skip+=1; continue
        worst=max(worst,abs(got-exp))
        if abs(got-exp)>1e-9:
            bad+=1
            if bad<5: print("DIFF",e,g,got,exp)
        # invariance: rotate about ego
        for phi in (0.3,1.9,-2.7):
            pe=rot(e[:2],phi); pg=rot(g[:2],phi)
            v=PlaneDistanceMatching(obj(pe[0],pe[1],e[2]+phi,se),obj(pg[0],pg[1],g[2]+phi,sg)).value
            if abs(v-got)>1e-9: invbad+=1
        # map rendering
        for ego in egos:
            ex,ey,a=ego
            def tm(q): r=rot(q[:2],a); return (ex+r[0],ey+r[1],q[2]+a,q[3])
            td=TransformDict(HomogeneousMatrix((ex,ey,0.0),Quaternion(axis=[0,0,1],angle=a),FrameID.BASE_LINK,FrameID.MAP))
            em=tm(e); gm=tm(g)
            v=PlaneDistanceMatching(obj(*em,frame=FrameID.MAP),obj(*gm,frame=FrameID.MAP),transforms=td).value
            if abs(v-got)>1e-6: invbad+=1
print(n,"pairs",skip,"skipped(tie)",bad,"bad","worst",worst,"inv bad",invbad,time.time()-t,"s")
