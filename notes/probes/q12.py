import itertools, math, warnings, logging, time, collections, tempfile, sys, os
warnings.filterwarnings("ignore"); logging.disable(logging.CRITICAL); os.environ["TQDM_DISABLE"]="1"
from pyquaternion import Quaternion
from perception_eval.common.object import DynamicObject
from perception_eval.common.label import Label, AutowareLabel as A
from perception_eval.common.schema import FrameID
from perception_eval.common.shape import Shape, ShapeType
from perception_eval.common.dataset import FrameGroundTruth
from perception_eval.common.transform import HomogeneousMatrix
from perception_eval.config import PerceptionEvaluationConfig
from perception_eval.evaluation.matching import MatchingLabelPolicy as Pol, MatchingMode
from perception_eval.evaluation.matching.objects_filter import get_positive_objects, get_negative_objects, divide_objects, divide_objects_to_num
from perception_eval.evaluation.metrics.detection.map import Map
from perception_eval.evaluation.result.perception_frame_config import CriticalObjectFilterConfig, PerceptionPassFailConfig
import perception_eval.evaluation.result.perception_frame_result as pfr
PATCH=len(sys.argv)>1
if PATCH:
    src=open(pfr.__file__).read().replace("transform=self.frame_ground_truth.transforms,\n            **self.pass_fail_result","transforms=self.frame_ground_truth.transforms,\n            **self.pass_fail_result")
    exec(compile(src,pfr.__file__,"exec"),pfr.__dict__)
from perception_eval.evaluation.result.object_result import get_object_results
def mk(x,y,yaw,label,score,uuid,frame,ego):
    if frame==FrameID.MAP:
        ex,ey,a=ego; c,s=math.cos(a),math.sin(a); x,y,yaw=ex+c*x-s*y,ey+s*x+c*y,yaw+a
    return DynamicObject(100,frame,(x,y,0.0),Quaternion(axis=[0,0,1],angle=yaw),Shape(ShapeType.BOUNDING_BOX,(2.0,4.0,1.5)),None,score,Label(label,label.value,[]),uuid=uuid,pointcloud_num=10)
cfg={"evaluation_task":"detection","target_labels":["car","pedestrian"],"max_x_position":100.0,"max_y_position":100.0,"min_point_numbers":[0,0],"label_prefix":"autoware","center_distance_thresholds":[1.0],"plane_distance_thresholds":[1.0],"iou_2d_thresholds":[0.3],"iou_3d_thresholds":[0.3]}
ec={f:PerceptionEvaluationConfig(["/x"],f,tempfile.mkdtemp(dir="/tmp/probe2"),cfg) for f in ("base_link","map")}
P=[(5.013,0.029),(5.9,1.4),(9.041,3.017),(14.0,-7.0),(-4.0,2.5)]   # critical box 12 x 6 -> (14,-7) outside
ego=(10.0,-5.0,0.7)
def compat(pol,e,g):
    if g==A.FP or pol==Pol.ALLOW_ANY: return True
    if pol==Pol.ALLOW_UNKNOWN: return e==g or e==A.UNKNOWN
    return e==g
def inside(x,y): return abs(x)<12.0 and abs(y)<6.0
n=0; issues=collections.Counter(); t0=time.time(); mono=collections.Counter()
for fid,frame in (("base_link",FrameID.BASE_LINK),("map",FrameID.MAP)):
 for gsel in itertools.combinations(range(5),2):
  for esel in itertools.permutations(range(5),2):
   for elabs in itertools.product((A.CAR,A.PEDESTRIAN,A.UNKNOWN),repeat=2):
    for glabs in [(A.CAR,A.CAR),(A.CAR,A.PEDESTRIAN),(A.FP,A.CAR)]:
     for pol in Pol:
      c=ec[fid]
      gpos=[P[i] for i in gsel]; epos=[(P[i][0]+0.31,P[i][1]-0.17) for i in esel]
      gts=[mk(*gpos[k],0.4,glabs[k],1.0,f"g{k}",frame,ego) for k in range(2)]
      ests=[mk(*epos[k],0.5,elabs[k],0.9-0.1*k,f"e{k}",frame,ego) for k in range(2)]
      e2m=HomogeneousMatrix((ego[0],ego[1],0.0),Quaternion(axis=[0,0,1],angle=ego[2]),FrameID.BASE_LINK,FrameID.MAP)
      fg=FrameGroundTruth(100,"0",list(gts),transforms=[e2m])
      res=get_object_results(c.evaluation_task,ests,gts,c.target_labels,pol,transforms=fg.transforms)
      crit=CriticalObjectFilterConfig(c,["car","pedestrian"],max_x_position_list=[12.0,12.0],max_y_position_list=[6.0,6.0])
      for thr in ([0.5,0.5],[2.0,0.5]):
        pf=PerceptionPassFailConfig(c,["car","pedestrian"],matching_threshold_list=thr)
        fg.objects=list(gts)
        fr=pfr.PerceptionFrameResult(list(res),fg,c.metrics_config,crit,pf,100,c.target_labels); fr.evaluate_frame(); n+=1
        p=fr.pass_fail_result; R=fr.object_results; G=fr.frame_ground_truth.objects
        if len(p.tp_object_results)+len(p.fp_object_results)!=len(R): issues["tp+fp!=results"]+=1
        for g in G:
            cnt=sum(r.ground_truth_object is g for r in p.tp_object_results)+sum(o is g for o in p.fn_objects)+sum(o is g for o in p.tn_objects)+sum((r.ground_truth_object is g and g.semantic_label.label==A.FP) for r in p.fp_object_results)
            if cnt!=1: issues[f"gt_count_{cnt}_{fid}"]+=1
        ordinary=[g for g in G if g.semantic_label.label!=A.FP]
        if len(ordinary)!=len(p.tp_object_results)+len([o for o in p.fn_objects]): issues["ordinaryGT!=TP+FN_"+fid]+=1
        for r in p.tp_object_results:
            gi=[k for k,g in enumerate(gts) if g is r.ground_truth_object][0]; ei=[k for k,e in enumerate(ests) if e is r.estimated_object][0]
            t=thr[[A.CAR,A.PEDESTRIAN].index(glabs[gi])] if glabs[gi] in (A.CAR,A.PEDESTRIAN) else None
            if not compat(pol,elabs[ei],glabs[gi]) or t is None or not (r.plane_distance.value<t): issues["tp_invalid"]+=1
        for r in R:
            ei=[k for k,e in enumerate(ests) if e is r.estimated_object][0]
            if not inside(*epos[ei]) and elabs[ei]!=A.UNKNOWN: issues["est_outside_counted_"+fid]+=1
            if r.ground_truth_object is not None:
                gi=[k for k,g in enumerate(gts) if g is r.ground_truth_object][0]
                if not inside(*gpos[gi]) and glabs[gi]!=A.FP: issues["gt_outside_counted_"+fid]+=1
        for g in G:
            gi=[k for k,o in enumerate(gts) if o is g][0]
            if not inside(*gpos[gi]) and glabs[gi]!=A.FP: issues["critgt_outside_"+fid]+=1
      # C08 monotonic on matcher output (ordinary GT only)
      if A.FP not in glabs and fid=="base_link":
        ladder=[0.25,0.5,1.0,2.0,4.0,50.0]; prev=None
        for t in ladder:
            tp,fp=get_positive_objects(res,c.target_labels,MatchingMode.CENTERDISTANCE,[t,t]); tn,fn=get_negative_objects(gts,res,c.target_labels,MatchingMode.CENTERDISTANCE,[t,t])
            mp=Map(divide_objects(res,c.target_labels),divide_objects_to_num(gts,c.target_labels),c.target_labels,MatchingMode.CENTERDISTANCE,[t,t])
            cur=(set(id(r) for r in tp),len(fn),[a.ap for a in mp.aps],[a.ap for a in mp.aphs],mp.map,mp.maph)
            if prev:
                if not prev[0]<=cur[0]: mono["tp_lost"]+=1
                if cur[1]>prev[1]: mono["fn_up"]+=1
                for a,b in zip(prev[2]+prev[3]+[prev[4],prev[5]],cur[2]+cur[3]+[cur[4],cur[5]]):
                    if b<a-1e-12: mono["ap_down"]+=1
            prev=cur; mono["evals"]+=1
print("patched" if PATCH else "unpatched",n,"frames",dict(issues),"mono",dict(mono),round(time.time()-t0,1),"s")
