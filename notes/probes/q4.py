import itertools, math, warnings, logging, time, collections
warnings.filterwarnings("ignore"); logging.disable(logging.CRITICAL)
import numpy as np
from pyquaternion import Quaternion
from perception_eval.common.object import DynamicObject
from perception_eval.common.label import Label, AutowareLabel
from perception_eval.common.schema import FrameID
from perception_eval.common.shape import Shape, ShapeType
from perception_eval.common.transform import HomogeneousMatrix, TransformDict
from perception_eval.evaluation.matching.objects_filter import filter_objects
L=AutowareLabel
EGOS=[(0,0,0),(10,-5,0.7),(-300,120,-2.4)]
def tomap(x,y,ego):
    ex,ey,a=ego; c,s=math.cos(a),math.sin(a); return ex+c*x-s*y, ey+s*x+c*y
def mk(x,y,label,name,attrs,conf,pts,uuid,mode,ego):
    if mode=="map": X,Y=tomap(x,y,ego); fr=FrameID.MAP
    else: X,Y=x,y; fr=FrameID.BASE_LINK
    return DynamicObject(100,fr,(X,Y,0.0),Quaternion(),Shape(ShapeType.BOUNDING_BOX,(1.,2.,1.)),None,conf,Label(label,name,attrs),pointcloud_num=pts,uuid=uuid)
def td(ego): return TransformDict(HomogeneousMatrix((ego[0],ego[1],0.0),Quaternion(axis=[0,0,1],angle=ego[2]),FrameID.BASE_LINK,FrameID.MAP))
POS=[(1.0,0.5),(4.9,1.9),(5.1,1.9),(4.9,2.1),(-4.9,-1.9),(-5.1,0),(9.9,0),(10.1,0),(0,-2.1),(1.4,1.4),(1.5,1.5),(7.0,7.2)]
LABS=[(L.CAR,"car",[]),(L.CAR,"car",["ign"]),(L.CAR,"vehicle.ign_car",[]),(L.PEDESTRIAN,"pedestrian",[]),(L.UNKNOWN,"unknown",[]),(L.UNKNOWN,"unknown",["ign"]),(L.FP,"false_positive",[]),(L.BUS,"bus",[])]
CFG=[]
for tl in ([L.CAR,L.PEDESTRIAN],[L.CAR,L.PEDESTRIAN,L.UNKNOWN],None):
    n=len(tl) if tl else 0
    for bounds in (None,"xy","ring"):
        if bounds and not tl: continue
        for conf in (None,True):
            for pts in (None,True):
                for uu in (None,["u1"]):
                    for ign in (None,["ign"]):
                        if (conf or pts) and not tl: continue
                        c=dict(target_labels=tl,ignore_attributes=ign,target_uuids=uu)
                        if bounds=="xy": c.update(max_x_position_list=[5.0,10.0,8.0][:n],max_y_position_list=[2.0,2.0,1.0][:n])
                        if bounds=="ring": c.update(max_distance_list=[5.0,10.5,8.0][:n],min_distance_list=[2.0,1.0,0.5][:n])
                        if conf: c.update(confidence_threshold_list=[0.4,0.6,0.2][:n])
                        if pts: c.update(min_point_numbers=[1,3,0][:n])
                        CFG.append(c)
def ref(o,x,y,is_gt,c,have_pos):
    lab=o.semantic_label
    if lab.label==L.FP: return True
    tl=c["target_labels"]
    unk_rel = (lab.label==L.UNKNOWN) and (not is_gt) and not (tl is not None and L.UNKNOWN in tl)
    def thr(lst, relaxed):
        if unk_rel: return relaxed(lst)
        return lst[tl.index(lab.label)]
    if tl and not unk_rel and lab.label not in tl: return False
    ign=c["ignore_attributes"]
    if ign is not None and not unk_rel and any(k in lab.name or k in lab.attributes for k in ign): return False
    cl=c.get("confidence_threshold_list")
    if cl is not None and not (o.semantic_score > thr(cl, lambda l:0.0)): return False
    if have_pos:
        if c.get("max_x_position_list") is not None and not abs(x) < thr(c["max_x_position_list"],np.mean): return False
        if c.get("max_y_position_list") is not None and not abs(y) < thr(c["max_y_position_list"],np.mean): return False
        r=math.hypot(x,y)
        if c.get("max_distance_list") is not None and not r < thr(c["max_distance_list"],np.mean): return False
        if c.get("min_distance_list") is not None and not r > thr(c["min_distance_list"],np.mean): return False
        if is_gt and c.get("min_point_numbers") is not None and not o.pointcloud_num >= thr(c["min_point_numbers"],lambda l:0): return False
    if is_gt and c["target_uuids"] is not None and o.uuid not in c["target_uuids"]: return False
    return True
n=bad=0; exc=collections.Counter(); t=time.time(); kept=0
for (x,y),(lab,name,attrs),conf,pts,uuid,is_gt in itertools.product(POS,LABS,(0.1,0.5,0.9),(0,5),("u1","u2"),(False,True)):
    for mode,ego in [("ego_notf",None),("ego_tf",EGOS[1]),("map",EGOS[1]),("map",EGOS[2])]:
        o=mk(x,y,lab,name,attrs,conf,pts,uuid,mode,ego)
        tf=None if mode=="ego_notf" else td(ego)
        for c in CFG:
            n+=1
            try: got=len(filter_objects([o],is_gt,transforms=tf,**c))==1
            except Exception as e:
                exc[type(e).__name__+":"+str(e)[:60]]+=1; continue
            exp=ref(o,x,y,is_gt,c,True)
            kept+=got
            if got!=exp:
                bad+=1
                if bad<8: print("DIFF",(x,y),lab,name,attrs,conf,pts,uuid,"gt" if is_gt else "est",mode,{k:v for k,v in c.items() if v is not None},"got",got,"exp",exp)
print(n,"cases kept",kept,"bad",bad,"exc",dict(exc),time.time()-t,"s")
