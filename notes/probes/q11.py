import itertools, warnings, logging, collections, tempfile, copy, os, shutil
warnings.filterwarnings("ignore"); logging.disable(logging.CRITICAL)
from perception_eval.config import PerceptionEvaluationConfig, SensingEvaluationConfig
TMP=tempfile.mkdtemp(dir="/tmp/probe2")
BASE3D={"target_labels":["car","pedestrian","bicycle"],"max_x_position":100.0,"max_y_position":100.0,"min_point_numbers":[0,0,0],"label_prefix":"autoware","merge_similar_labels":False,
  "center_distance_thresholds":[1.0,2.0],"plane_distance_thresholds":[[1.0,1.0,1.0]],"iou_2d_thresholds":[0.5],"iou_3d_thresholds":[0.5],"max_matchable_radii":[5.0,3.0,3.0],"confidence_threshold":0.1}
BASE2D={"target_labels":["car","pedestrian","bicycle"],"label_prefix":"autoware","center_distance_thresholds":[100.0],"iou_2d_thresholds":[0.5]}
TASKS={"detection":("base_link",BASE3D),"tracking":("map",BASE3D),"fp_validation":("base_link",BASE3D),"prediction":("map",BASE3D),
       "detection2d":("cam_front",BASE2D),"tracking2d":("cam_front",BASE2D),"classification2d":("cam_front",{"target_labels":["car","pedestrian","bicycle"],"label_prefix":"autoware"}),"fp_validation2d":("cam_front",BASE2D)}
EDITS=[("none",lambda c:None)]
for k in ["evaluation_task","target_labels","max_x_position","max_y_position","min_point_numbers","label_prefix","center_distance_thresholds","iou_3d_thresholds","max_matchable_radii","confidence_threshold"]:
    EDITS.append(("del:"+k,(lambda k:lambda c:c.pop(k,None))(k)))
EDITS+= [("add:foo_thresholds",lambda c:c.update(foo_thresholds=[0.8])),("add:both_ranges",lambda c:c.update(max_distance=80.0,min_distance=1.0)),
         ("dist_only",lambda c:(c.pop("max_x_position",None),c.pop("max_y_position",None),c.update(max_distance=80.0,min_distance=1.0))),
         ("neither_range",lambda c:(c.pop("max_x_position",None),c.pop("max_y_position",None))),
         ("bad_len:min_point_numbers",lambda c:c.update(min_point_numbers=[0,0])),("bad_len:center",lambda c:c.update(center_distance_thresholds=[[1.0,2.0]])),
         ("nonnum:center",lambda c:c.update(center_distance_thresholds=["x"])),("nonnum:nested",lambda c:c.update(iou_2d_thresholds=[["x","y","z"]])),("bad_len:radii",lambda c:c.update(max_matchable_radii=[1.0,2.0])),
         ("task:foo",lambda c:c.update(evaluation_task="foo")),("task:sensing",lambda c:c.update(evaluation_task="sensing")),("bad_policy",lambda c:c.update(matching_label_policy="nope")),("prefix:bad",lambda c:c.update(label_prefix="blinker"))]
rows=collections.OrderedDict()
for task,(fid,base) in TASKS.items():
    for name,ed in EDITS:
        c=copy.deepcopy(base); c["evaluation_task"]=task; ed(c)
        try:
            ec=PerceptionEvaluationConfig(["/x"],fid,os.path.join(TMP,"r"),c)
            n=len(ec.target_labels)
            lens=[len(v) for k,v in ec.filtering_params.items() if isinstance(v,list) and k not in ("target_uuids","ignore_attributes")]
            mc=ec.metrics_config; rowlens=[]
            for cc in (mc.detection_config,mc.tracking_config):
                if cc:
                    for a in ("center_distance_thresholds","plane_distance_thresholds","iou_2d_thresholds","iou_3d_thresholds"): rowlens+= [len(r) for r in getattr(cc,a)]
            out="OK" + ("" if all(l==n for l in lens+rowlens) else f" LEN-MISMATCH n={n} {lens} {rowlens}")
        except Exception as e:
            out="ERR "+type(e).__name__
        rows.setdefault(name,{})[task]=out
tasks=list(TASKS)
print("edit".ljust(28)," ".join(t[:10].ljust(14) for t in tasks))
for name,r in rows.items(): print(name.ljust(28)," ".join(r[t][:14].ljust(14) for t in tasks))
shutil.rmtree(TMP)
