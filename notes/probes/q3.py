import itertools, math, warnings, logging, time
from fractions import Fraction as Fr
warnings.filterwarnings("ignore"); logging.disable(logging.CRITICAL)
from pyquaternion import Quaternion
from perception_eval.common.object import DynamicObject
from perception_eval.common.label import Label, AutowareLabel
from perception_eval.common.schema import FrameID
from perception_eval.common.shape import Shape, ShapeType
from perception_eval.evaluation.result.object_result import DynamicObjectWithPerceptionResult
from perception_eval.evaluation.matching import MatchingMode
from perception_eval.evaluation.metrics.detection.ap import Ap
from perception_eval.evaluation.metrics.detection.tp_metrics import TPMetricsAp, TPMetricsAph
from perception_eval.common.transform import HomogeneousMatrix, TransformDict
TD=TransformDict(HomogeneousMatrix((0,0,0),(1,0,0,0),FrameID.BASE_LINK,FrameID.MAP))
def obj(x,yaw,label,score):
    return DynamicObject(100,FrameID.MAP,(x,0,0),Quaternion(axis=[0,0,1],angle=yaw),Shape(ShapeType.BOUNDING_BOX,(1.,2.,1.)),None,score,Label(label,label.value,[]))
# use MAP frame so APH heading uses signed yaw (works on unfixed tree)
W={"T1":0.0,"T5":math.pi/2,"T0":math.pi}
def mk(sym,score):
    e_yaw=0.3
    if sym.startswith("T"): return DynamicObjectWithPerceptionResult(obj(0,e_yaw,AutowareLabel.CAR,score), obj(0.2,e_yaw+W[sym],AutowareLabel.CAR,1.0),transforms=TD)
    if sym=="F": return DynamicObjectWithPerceptionResult(obj(0,e_yaw,AutowareLabel.CAR,score), obj(5.0,e_yaw,AutowareLabel.CAR,1.0),transforms=TD)
    if sym=="N": return DynamicObjectWithPerceptionResult(obj(0,e_yaw,AutowareLabel.CAR,score), None)
    if sym=="I": return DynamicObjectWithPerceptionResult(obj(0,e_yaw,AutowareLabel.CAR,score), obj(0.2,e_yaw,AutowareLabel.PEDESTRIAN,1.0),transforms=TD)
wt={"T1":Fr(1),"T5":Fr(1,2),"T0":Fr(0)}
def ref_ap(seq,G,aph):
    if not seq: return None
    cum=Fr(0); pts=[]
    for k,s in enumerate(seq,1):
        if s.startswith("T"): cum+= (wt[s] if aph else 1)
        pts.append((cum/k, (cum/G if G>0 else Fr(0))))
    levels=sorted({r for _,r in pts})
    ap=Fr(0); prev=Fr(0)
    for r in levels:
        if r==0: continue
        ap+=(r-prev)*max(p for p,rr in pts if rr>=r); prev=r
    return ap
SY=["T1","T5","T0","F","N","I"]
n=bad=0; t=time.time(); above=0
for L in range(0,6):
    for seq in itertools.product(SY,repeat=L):
        res=[mk(s,0.95-0.05*i) for i,s in enumerate(seq)]
        for order in (0,1):
            inp=list(res) if order==0 else list(reversed(res))
            for G in range(0,L+2):
                for aph in (False,True):
                    a=Ap(TPMetricsAph() if aph else TPMetricsAp(), [list(inp)], G, [AutowareLabel.CAR], MatchingMode.CENTERDISTANCE, [1.0])
                    exp=ref_ap(seq,G,aph)
                    n+=1
                    ok = (exp is None and a.ap==float("inf")) or (exp is not None and abs(a.ap-float(exp))<1e-9)
                    if not ok:
                        bad+=1
                        if bad<6: print("DIFF",seq,G,aph,"got",a.ap,"exp",exp)
                    nT=sum(s.startswith("T") for s in seq)
                    if exp is not None and nT<=G and not (0<=a.ap<=1+1e-12): above+=1
print(n,"cases",bad,"bad",above,"out of [0,1]", time.time()-t,"s")
