import json, os, sys, time, warnings, logging
warnings.filterwarnings("ignore")
import numpy as np
from pyquaternion import Quaternion

def tok(prefix, i): return f"{prefix}{i:04d}"

def gen(root, samples, categories, vis_levels=("full","most","partial","none")):
    """samples: list of dict(ts, ego=(x,y,yaw), anns=[dict(inst, cat, pos, yaw, size, npts, vis, attrs)])"""
    ann_dir = os.path.join(root, "annotation"); os.makedirs(ann_dir, exist_ok=True)
    T = {k: [] for k in ["category","attribute","visibility","instance","sensor","calibrated_sensor","ego_pose","log","scene","sample","sample_data","sample_annotation","map"]}
    cat_tok = {}
    for i,c in enumerate(categories):
        cat_tok[c] = tok("cat", i); T["category"].append(dict(token=cat_tok[c], name=c, description=""))
    T["attribute"].append(dict(token="attr0", name="vehicle_state.moving", description=""))
    for v in vis_levels: T["visibility"].append(dict(token=v, level=v, description=""))
    T["sensor"].append(dict(token="sens0", channel="LIDAR_CONCAT", modality="lidar"))
    T["calibrated_sensor"].append(dict(token="cs0", sensor_token="sens0", translation=[0,0,0], rotation=[1,0,0,0], camera_intrinsic=[]))
    T["log"].append(dict(token="log0", logfile="", vehicle="v", date_captured="2020-01-01", location="loc"))
    T["map"].append(dict(token="map0", log_tokens=["log0"], category="semantic_prior", filename=""))
    n = len(samples)
    T["scene"].append(dict(token="scene0", log_token="log0", nbr_samples=n, first_sample_token=tok("s",0), last_sample_token=tok("s",n-1), name="scene0", description=""))
    inst_anns = {}
    aidx = 0
    for i,s in enumerate(samples):
        T["sample"].append(dict(token=tok("s",i), timestamp=s["ts"], prev=tok("s",i-1) if i>0 else "", next=tok("s",i+1) if i<n-1 else "", scene_token="scene0"))
        ex,ey,eyaw = s["ego"]
        q = Quaternion(axis=[0,0,1], angle=eyaw)
        T["ego_pose"].append(dict(token=tok("ep",i), timestamp=s["ts"], rotation=list(q.q), translation=[ex,ey,0.0]))
        T["sample_data"].append(dict(token=tok("sd",i), sample_token=tok("s",i), ego_pose_token=tok("ep",i), calibrated_sensor_token="cs0", timestamp=s["ts"], fileformat="pcd.bin", is_key_frame=True, height=0, width=0, filename=f"data/LIDAR_CONCAT/{i}.pcd.bin", prev=tok("sd",i-1) if i>0 else "", next=tok("sd",i+1) if i<n-1 else ""))
        for a in s["anns"]:
            t = tok("a", aidx); aidx += 1
            qa = Quaternion(axis=[0,0,1], angle=a["yaw"])
            rec = dict(token=t, sample_token=tok("s",i), instance_token=a["inst"], visibility_token=a["vis"], attribute_tokens=a.get("attrs",[]), translation=list(a["pos"]), size=list(a["size"]), rotation=list(qa.q), prev="", next="", num_lidar_pts=a["npts"], num_radar_pts=0)
            T["sample_annotation"].append(rec)
            inst_anns.setdefault(a["inst"], dict(cat=a["cat"], anns=[]))["anns"].append(rec)
    for inst, d in inst_anns.items():
        anns = d["anns"]
        for j,r in enumerate(anns):
            r["prev"] = anns[j-1]["token"] if j>0 else ""
            r["next"] = anns[j+1]["token"] if j<len(anns)-1 else ""
        T["instance"].append(dict(token=inst, category_token=cat_tok[d["cat"]], instance_name=f"x::{inst}", nbr_annotations=len(anns), first_annotation_token=anns[0]["token"], last_annotation_token=anns[-1]["token"]))
    for k,v in T.items():
        json.dump(v, open(os.path.join(ann_dir, k+".json"),"w"))

if __name__ == "__main__":
    root = sys.argv[1]
    samples = [dict(ts=1000000+100000*i, ego=(10.0*i, 5.0, 0.3*i), anns=[
        dict(inst="i0", cat="car", pos=(20+i, 3, 0.5), yaw=0.2, size=(2,4,1.5), npts=10, vis="full"),
        dict(inst="i1", cat="pedestrian.adult", pos=(5, -3+i, 0.5), yaw=-1.2, size=(0.5,0.5,1.7), npts=3, vis="none")][: (2 if i!=1 else 1)]) for i in range(3)]
    gen(root, samples, ["car","pedestrian.adult"])
    from perception_eval.common.dataset import load_all_datasets
    from perception_eval.common.label import LabelConverter
    from perception_eval.common.evaluation_task import EvaluationTask
    from perception_eval.common.schema import FrameID
    logging.disable(logging.CRITICAL)
    for task, fid in [(EvaluationTask.DETECTION, FrameID.BASE_LINK),(EvaluationTask.TRACKING, FrameID.MAP),(EvaluationTask.SENSING, FrameID.BASE_LINK)]:
        t=time.time()
        frames = load_all_datasets([root], task, LabelConverter(task, False, "autoware"), fid)
        print(task, fid, time.time()-t, "s")
        for f in frames:
            print(" ", f.unix_time, f.frame_name, [(o.uuid, o.semantic_label.label, tuple(round(p,3) for p in o.state.position), round(o.state.orientation.yaw_pitch_roll[0],3), o.pointcloud_num, o.visibility, o.state.velocity, None if o.tracked_path is None else len(o.tracked_path)) for o in f.objects])
