import itertools, math, warnings, logging, time, collections, sys, shutil, os, io, contextlib
warnings.filterwarnings("ignore"); logging.disable(logging.CRITICAL)
os.environ["TQDM_DISABLE"]="1"
import numpy as np
from pyquaternion import Quaternion
from gen import gen
from perception_eval.common.dataset import load_all_datasets
from perception_eval.common.label import LabelConverter, AutowareLabel as A
from perception_eval.common.evaluation_task import EvaluationTask
from perception_eval.common.schema import FrameID, Visibility
GOLD={"car":A.CAR,"pedestrian.adult":A.PEDESTRIAN,"bus":A.BUS,"animal":A.UNKNOWN,"weird.thing":A.UNKNOWN}
MERGE={A.BUS:A.CAR}
VIS={"full":Visibility.FULL,"most":Visibility.MOST,"partial":Visibility.PARTIAL,"none":Visibility.NONE,"v80-100":Visibility.FULL,"v60-80":Visibility.MOST,"v40-60":Visibility.PARTIAL,"v0-40":Visibility.NONE}
EGO=[(0,0,0),(10,-5,0.7),(-300,120,-2.4)]
POSE={"i0":[((20,3,0.5),0.2),((21,3.5,0.5),0.5),((23,4,0.5),3.0)],"i1":[((5,-3,0.5),-1.2),((5,-2,0.5),-3.0),((6,-1,0.5),3.1)]}
def wrapd(a,b): return abs((a-b+math.pi)%(2*math.pi)-math.pi)
root="/tmp/probe2/ds"; n=0; issues=collections.Counter(); t0=time.time()
for nsamp in (1,2,3):
  for pres in itertools.product(itertools.product((0,1),repeat=nsamp),repeat=2):
    if sum(map(sum,pres))==0: continue
    for cats in [("car","pedestrian.adult"),("bus","animal"),("weird.thing","car")]:
      for style in (("full","most","partial","none"),("v80-100","v60-80","v40-60","v0-40")):
        samples=[]
        for k in range(nsamp):
            anns=[]
            for ii,inst in enumerate(("i0","i1")):
                if pres[ii][k]:
                    (p,yaw)=POSE[inst][k]
                    anns.append(dict(inst=inst,cat=cats[ii],pos=p,yaw=yaw,size=(1.5+ii,4.0-ii,1.2),npts=3+k+10*ii,vis=style[(k+ii)%4]))
            samples.append(dict(ts=1000000+100000*k,ego=EGO[k],anns=anns))
        shutil.rmtree(root,ignore_errors=True); gen(root,samples,list(cats),vis_levels=style)
        for task,fid,merge in [(EvaluationTask.DETECTION,FrameID.BASE_LINK,False),(EvaluationTask.TRACKING,FrameID.MAP,False),(EvaluationTask.SENSING,FrameID.BASE_LINK,True),(EvaluationTask.DETECTION,FrameID.MAP,True)]:
            with contextlib.redirect_stderr(io.StringIO()):
                frames=load_all_datasets([root],task,LabelConverter(task,merge,"autoware"),fid)
            n+=1
            if len(frames)!=nsamp: issues["nframes"]+=1; continue
            for k,f in enumerate(frames):
                s=samples[k]
                if f.unix_time!=s["ts"] or f.frame_name!=str(k): issues["stamp"]+=1
                if len(f.objects)!=len(s["anns"]): issues["nobj"]+=1; continue
                byid={o.uuid:o for o in f.objects}
                for a in s["anns"]:
                    o=byid.get(a["inst"])
                    if o is None: issues["uuid"]+=1; continue
                    lab=GOLD[a["cat"]]; lab=MERGE.get(lab,lab) if merge else lab
                    if o.semantic_label.label!=lab: issues["label"]+=1
                    if tuple(o.state.size)!=tuple(map(float,a["size"])): issues["size"]+=1
                    if o.pointcloud_num!=a["npts"]: issues["npts"]+=1
                    if not (o.visibility is VIS[a["vis"]]): issues["visibility:"+("t4" if style[0]=="full" else "nusc")]+=1
                    ex,ey,ea=s["ego"]; gx,gy,gz=a["pos"]
                    if fid==FrameID.MAP: exp=(gx,gy,gz,a["yaw"])
                    else:
                        c,si=math.cos(-ea),math.sin(-ea); dx,dy=gx-ex,gy-ey; exp=(c*dx-si*dy,si*dx+c*dy,gz,a["yaw"]-ea)
                    p=o.state.position; y=o.state.orientation.yaw_pitch_roll[0]
                    if max(abs(p[0]-exp[0]),abs(p[1]-exp[1]),abs(p[2]-exp[2]))>1e-6 or wrapd(y,exp[3])>1e-6: issues["pose"]+=1
                    M=f.transforms[(FrameID.BASE_LINK,FrameID.MAP)]
                    if fid==FrameID.BASE_LINK:
                        pm,rm=M.transform(o.state.position,o.state.orientation)
                        if max(abs(pm[0]-gx),abs(pm[1]-gy))>1e-6 or wrapd(rm.yaw_pitch_roll[0],a["yaw"])>1e-6: issues["ego2map"]+=1
                    if task==EvaluationTask.TRACKING:
                        past=[POSE[a["inst"]][j] for j in range(k) if pres[("i0","i1").index(a["inst"])][j]]
                        tp=o.tracked_path or []
                        if len(tp)!=len(past): issues["track_len"]+=1
                        else:
                            got=[(tuple(round(v,6) for v in st.position),round(st.orientation.yaw_pitch_roll[0],6)) for st in tp]
                            expd=[(tuple(map(float,pp)),round(yy,6)) for pp,yy in past]
                            if sorted(got)!=sorted(expd): issues["track_pose"]+=1
                            elif got!=list(reversed(expd)) and got!=expd: issues["track_order_other"]+=1
                            elif len(got)>1: issues["info_track_order_"+("newest_first" if got==list(reversed(expd)) else "oldest_first")]+=1
shutil.rmtree(root,ignore_errors=True)
print(n,"loads",dict(issues),round(time.time()-t0,1),"s")
