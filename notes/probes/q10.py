import itertools, math, warnings, logging, time, collections, sys, shutil, os, io, contextlib, copy, tempfile
warnings.filterwarnings("ignore"); logging.disable(logging.CRITICAL); os.environ["TQDM_DISABLE"]="1"
import numpy as np
from pyquaternion import Quaternion
from gen import gen
from perception_eval.config import PerceptionEvaluationConfig
import perception_eval.manager.perception_evaluation_manager as pm
from perception_eval.evaluation.result.perception_frame_config import CriticalObjectFilterConfig, PerceptionPassFailConfig
PATCH=len(sys.argv)>1
if PATCH:
    src=open(pm.__file__).read().replace("        frame_ground_truth.objects = filter_objects(\n            objects=frame_ground_truth.objects,","        import copy as _c\n        frame_ground_truth = _c.copy(frame_ground_truth)\n        frame_ground_truth.objects = filter_objects(\n            objects=frame_ground_truth.objects,")
    src=src.replace("from ._evaluation_manager_base","from perception_eval.manager._evaluation_manager_base").replace("from ..evaluation.result.object_result","from perception_eval.evaluation.result.object_result")
    exec(compile(src,pm.__file__,"exec"),pm.__dict__)
root="/tmp/probe2/ds13"
samples=[dict(ts=1000000+100000*k,ego=(0,0,0),anns=[
    dict(inst="i0",cat="car",pos=(5+k,1,0.5),yaw=0.2,size=(2,4,1.5),npts=10,vis="full"),
    dict(inst="i1",cat="car",pos=(15,-4+k,0.5),yaw=-1.2,size=(2,4,1.5),npts=10,vis="full"),
    dict(inst="i2",cat="pedestrian.adult",pos=(8,6,0.5),yaw=0.0,size=(0.6,0.6,1.7),npts=10,vis="full")]) for k in range(3)]
shutil.rmtree(root,ignore_errors=True); gen(root,samples,["car","pedestrian.adult"])
cfg={"evaluation_task":"detection","target_labels":["car","pedestrian"],"max_x_position":100.0,"max_y_position":100.0,"min_point_numbers":[0,0],"label_prefix":"autoware","center_distance_thresholds":[1.0],"plane_distance_thresholds":[1.0],"iou_2d_thresholds":[0.3],"iou_3d_thresholds":[0.3]}
with contextlib.redirect_stderr(io.StringIO()):
    ec=PerceptionEvaluationConfig([root],"base_link",tempfile.mkdtemp(dir="/tmp/probe2"),cfg)
    m=pm.PerceptionEvaluationManager(ec)
PRISTINE=[list(f.objects) for f in m.ground_truth_frames]
def reset():
    m.frame_results=[]
    for f,objs in zip(m.ground_truth_frames,PRISTINE): f.objects=list(objs)
SALT=[0.0]
def ests(k,kind):
    out=[]
    for j,o in enumerate(PRISTINE[k]):
        if kind=="missing" and j==1: continue
        e=copy.deepcopy(o); e.uuid="e"+o.uuid; e.semantic_score=0.9-0.07*j-0.011*k-0.0013*("perfect","shifted","missing").index(kind)-SALT[0]
        if kind=="shifted": e.state.position=(o.state.position[0]+0.6,o.state.position[1],o.state.position[2])
        out.append(e)
    if kind=="missing":
        e=copy.deepcopy(PRISTINE[k][0]); e.uuid="extra"; e.semantic_score=0.33+0.01*k; e.state.position=(30.0,30.0,0.5); out.append(e)
    return out
CRIT={"wide":dict(max_x_position_list=[50.0,50.0],max_y_position_list=[50.0,50.0]),"narrow":dict(max_x_position_list=[10.0,10.0],max_y_position_list=[10.0,10.0])}
OPS=[(k,kind,c) for k in range(3) for kind in ("perfect","shifted","missing") for c in ("wide","narrow")]
def do(op):
    k,kind,c=op; f=m.ground_truth_frames[k]; SALT[0]=0.0007*("wide","narrow").index(c); E=ests(k,kind); E0=list(E)
    crit=CriticalObjectFilterConfig(ec,["car","pedestrian"],**CRIT[c]); pf=PerceptionPassFailConfig(ec,["car","pedestrian"],matching_threshold_list=[1.0,1.0])
    r=m.add_frame_result(f.unix_time,f,E,crit,pf)
    assert E==E0 or all(a is b for a,b in zip(E,E0))
    p=r.pass_fail_result
    return (sorted((x.estimated_object.uuid,x.ground_truth_object.uuid if x.ground_truth_object else None) for x in r.object_results),
            sorted(x.estimated_object.uuid for x in p.tp_object_results),sorted(x.estimated_object.uuid for x in p.fp_object_results),sorted(x.uuid for x in p.fn_objects),
            sorted(o.uuid for o in r.frame_ground_truth.objects),
            [tuple(round(a.ap,9) for a in mp.aps) for mp in r.metrics_score.maps])
FRESH={}
for op in OPS: reset(); FRESH[op]=do(op)
issues=collections.Counter(); n=0; t0=time.time(); ex=[]
for depth in (2,):
    for h in itertools.product(OPS,repeat=depth):
        reset(); last=None
        for op in h: last=do(op)
        n+=1
        if last!=FRESH[h[-1]]:
            issues["history_dependent"]+=1
            if len(ex)<2: ex.append((h,last,FRESH[h[-1]]))
        if any(len(f.objects)!=len(p) or any(a is not b for a,b in zip(f.objects,p)) for f,p in zip(m.ground_truth_frames,PRISTINE)): issues["dataset_modified"]+=1
        # pooling
        s=m.get_scene_result()
        tot=sum(len(fr.frame_ground_truth.objects) for fr in m.frame_results)
        if s.num_ground_truth!=tot: issues["scene_gt_count"]+=1
        if depth==2:
            a=[tuple(round(x.ap,9) for x in mp.aps) for mp in s.maps]
            reset(); [do(op) for op in reversed(h)]
            b=[tuple(round(x.ap,9) for x in mp.aps) for mp in m.get_scene_result().maps]
            if a!=b: issues["order_dependent_pool"+("_same_op" if h[0]==h[1] else "")]+=1
    print("depth",depth,n,dict(issues),round(time.time()-t0,1),"s")
for e in ex: print("EX",e)
shutil.rmtree(root,ignore_errors=True)
