import time, math, warnings, logging, itertools
warnings.filterwarnings("ignore"); logging.disable(logging.CRITICAL)
import numpy as np
from pyquaternion import Quaternion
from perception_eval.common.object import DynamicObject
from perception_eval.common.label import Label, AutowareLabel
from perception_eval.common.schema import FrameID
from perception_eval.common.shape import Shape, ShapeType
from perception_eval.evaluation.matching import IOU2dMatching, IOU3dMatching, PlaneDistanceMatching
def obj(x,y,yaw,size,z=0.0):
    return DynamicObject(unix_time=100, frame_id=FrameID.BASE_LINK, position=(x,y,z), orientation=Quaternion(axis=[0,0,1], angle=yaw),
        shape=Shape(ShapeType.BOUNDING_BOX, size), velocity=None, semantic_score=0.9, semantic_label=Label(AutowareLabel.CAR,"car",[]), uuid=None, pointcloud_num=10)
def corners(x,y,yaw,size):
    w,l,_=size; c,s=math.cos(yaw),math.sin(yaw)
    loc=[(l/2,w/2),(-l/2,w/2),(-l/2,-w/2),(l/2,-w/2)]
    return [(x+c*a-s*b, y+s*a+c*b) for a,b in loc]
def area(P): return 0.5*sum(P[i][0]*P[(i+1)%len(P)][1]-P[(i+1)%len(P)][0]*P[i][1] for i in range(len(P)))
def clip(S,C):
    out=S
    for i in range(len(C)):
        a,b=C[i],C[(i+1)%len(C)]
        inp=out; out=[]
        if not inp: break
        def side(p): return (b[0]-a[0])*(p[1]-a[1])-(b[1]-a[1])*(p[0]-a[0])
        for j in range(len(inp)):
            p,q=inp[j],inp[(j+1)%len(inp)]
            sp,sq=side(p),side(q)
            if sp>=0:
                out.append(p)
                if sq<0:
                    t=sp/(sp-sq); out.append((p[0]+t*(q[0]-p[0]),p[1]+t*(q[1]-p[1])))
            elif sq>=0:
                t=sp/(sp-sq); out.append((p[0]+t*(q[0]-p[0]),p[1]+t*(q[1]-p[1])))
    return out
worst=0; n=0
sizes=[(1,1,1),(2,4,1.5),(0.05,5,1),(10,10,3)]
yaws=[k*math.pi/7 for k in range(-6,8)]
pos=[(0,0),(0.7,0.3),(2.1,-1.3),(6,6),(1,0)]
t=time.time()
for sa,sb in itertools.product(sizes,sizes):
  for ya,yb in itertools.product(yaws[::2],yaws):
    for pb in pos:
        A=obj(3,1,ya,sa); B=obj(3+pb[0],1+pb[1],yb,sb,z=0.4)
        lib=IOU2dMatching(A,B).value
        I=clip(corners(3,1,ya,sa),corners(3+pb[0],1+pb[1],yb,sb)); ia=abs(area(I)) if len(I)>=3 else 0.0
        ref=ia/(sa[0]*sa[1]+sb[0]*sb[1]-ia)
        worst=max(worst,abs(lib-ref)); n+=1
print(n,"pairs worst abs diff",worst, "time", time.time()-t)
A=obj(3,1,0.3,(2,4,1.5)); print(IOU2dMatching(A,A).value, IOU3dMatching(A,A).value, PlaneDistanceMatching(A,A).value)
