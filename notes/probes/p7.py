import time, math, warnings, logging, itertools
warnings.filterwarnings("ignore"); logging.disable(logging.CRITICAL)
from pyquaternion import Quaternion
from perception_eval.common.object import DynamicObject
from perception_eval.common.label import Label, AutowareLabel
from perception_eval.common.schema import FrameID
from perception_eval.common.shape import Shape, ShapeType
from perception_eval.evaluation.result.object_result import DynamicObjectWithPerceptionResult
from perception_eval.evaluation.matching import MatchingMode
from perception_eval.evaluation.metrics.tracking.clear import CLEAR
def obj(p,uuid):
    return DynamicObject(unix_time=100, frame_id=FrameID.BASE_LINK, position=tuple(p), orientation=Quaternion(),
        shape=Shape(ShapeType.BOUNDING_BOX, (1.,2.,1.)), velocity=None, semantic_score=0.9, semantic_label=Label(AutowareLabel.CAR,"car",[]), uuid=uuid, pointcloud_num=10)
SC={("a","x"):0.2,("a","y"):0.3,("b","x"):0.4,("b","y"):0.5}
pool={}
def R(e,g,near):
    k=(e,g,near)
    if k not in pool:
        eo=obj((0,0,0),e); go=None if g is None else obj((SC[(e,g)] if near else 5.0+SC[(e,g)],0,0),g)
        pool[k]=DynamicObjectWithPerceptionResult(eo,go)
    return pool[k]
# frames: each est in {absent, unmatched, (g,near/far)} with gt unique
opts=[None,("U",),("x",True),("x",False),("y",True),("y",False)]
frames=[]
for oa,ob in itertools.product(opts,opts):
    gs=[o[0] for o in (oa,ob) if o and o[0]!="U"]
    if len(gs)!=len(set(gs)): continue
    f=[]
    for e,o in (("a",oa),("b",ob)):
        if o is None: continue
        f.append((e,None,False) if o[0]=="U" else (e,o[0],o[1]))
    frames.append(tuple(f))
print(len(frames),"frames")
def ref_step(prev,cur):
    tp=fp=sw=0; sc=0.0
    prevTP=[(e,g) for (e,g,n) in prev if g is not None and n]
    for (e,g,n) in cur:
        if g is not None and n:
            tp+=1; sc+=SC[(e,g)]
            if any((pe==e and pg!=g) or (pg==g and pe!=e) for pe,pg in prevTP): sw+=1
        elif g is not None and (e,g) in prevTP:
            tp+=1; sc+=SC[(e,g)]   # carry-over (unstable)
        else: fp+=1
    return tp,fp,sw,sc
def stable(prev,cur):
    pm={(e,g):n for e,g,n in prev if g}
    return all(pm.get((e,g),n)==n for e,g,n in cur if g)
bad=0; n=0; unst=0
for prev,cur in itertools.product(frames,frames):
    c=CLEAR([[R(*r) for r in prev],[R(*r) for r in cur]], 3, [AutowareLabel.CAR], MatchingMode.CENTERDISTANCE,[1.0])
    got=(int(c.tp),int(c.fp),c.id_switch,round(c.tp_matching_score,9))
    exp=ref_step(prev,cur); exp=(exp[0],exp[1],exp[2],round(exp[3],9))
    n+=1
    if not stable(prev,cur): unst+=1
    if got!=exp:
        bad+=1
        if bad<=8: print("MISMATCH stable=",stable(prev,cur),"prev",prev,"cur",cur,"got",got,"exp",exp)
print(n,"pairs",unst,"unstable",bad,"mismatches")
