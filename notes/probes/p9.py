import math, warnings, logging, itertools
warnings.filterwarnings("ignore"); logging.disable(logging.CRITICAL)
import numpy as np
from pyquaternion import Quaternion
from perception_eval.common.transform import HomogeneousMatrix, TransformDict, TransformKey
from perception_eval.common.schema import FrameID
from perception_eval.common.point import crop_pointcloud
from perception_eval.common.object import DynamicObject
from perception_eval.common.object2d import DynamicObject2D
from perception_eval.common.label import Label, AutowareLabel, TrafficLightLabel
from perception_eval.common.shape import Shape, ShapeType
from perception_eval.common.evaluation_task import EvaluationTask
from perception_eval.evaluation.result.object_result import get_object_results
# C18
axes=[(1,0,0),(0,1,0),(0,0,1),(1,1,0),(1,2,3)]; angs=[0,0.3,-0.3,math.pi/2,-math.pi/2,2.5,math.pi]
rots=[Quaternion(axis=a,angle=t) for a in axes for t in angs]; rots+= [-q for q in rots]
trs=[(0,0,0),(1,2,3),(-300,120,5),(1000,1000,0),(0.5,-0.25,0.125)]
def M(q,t): m=np.eye(4); m[:3,:3]=q.rotation_matrix; m[:3,3]=t; return m
worst=0; n=0; exc=0
p0=np.array((3.0,-2.0,1.0)); q0=Quaternion(axis=(0,0,1),angle=0.9)
for q,t in itertools.product(rots,trs):
    for form in ("q","list","mat"):
        r = q if form=="q" else (list(q.q) if form=="list" else q.rotation_matrix)
        try:
            H=HomogeneousMatrix(t,r,"base_link","map")
            p1,r1=H.transform(p0,q0); p2,r2=H.inv().transform(p1,r1)
            worst=max(worst,np.abs(p2-p0).max(), min(np.abs(r2.q-q0.q).max(),np.abs(r2.q+q0.q).max()))
            ref=(M(q,t)@np.append(p0,1))[:3]; worst=max(worst,np.abs(ref-p1).max())
            n+=1
        except Exception as e:
            exc+=1
            if exc<4: print("EXC",form,q,t,repr(e))
print("C18 n",n,"exc",exc,"worst",worst)
td=TransformDict([HomogeneousMatrix((1,2,3),Quaternion(axis=(0,0,1),angle=0.5),FrameID.BASE_LINK,FrameID.MAP)])
print(td.transform(("map","base_link"),(1,2,3)), td.transform((FrameID.MAP,FrameID.MAP),(9,9,9)))
try: td.transform(("cam_front","map"),(0,0,0))
except Exception as e: print("KeyError ok", type(e).__name__)
try: HomogeneousMatrix((0,0,0),(1,0,0,0),"map","base_link").dot(HomogeneousMatrix((0,0,0),(1,0,0,0),"map","base_link"))
except Exception as e: print("mismatch", type(e).__name__)
# C12 crop vs reference
def box(x,y,yaw,size):
    return DynamicObject(100,FrameID.BASE_LINK,(x,y,0.7),Quaternion(axis=(0,0,1),angle=yaw),Shape(ShapeType.BOUNDING_BOX,size),None,1.0,Label(AutowareLabel.CAR,"car",[]))
rel=[-1.4,-0.9,-0.55,-0.45,-0.2,0.2,0.45,0.55,0.9,1.4]
bad=0; cnt=0
for x,y in [(0,0),(5.013,-3.029),(-20,11)]:
  for yaw in [k*math.pi/5+0.1 for k in range(-5,5)]:
    for size in [(1,1,1),(2,4,1.5),(0.05,5,1)]:
      for sc in (0.8,1.0,1.3):
        w,l,h=size; c,s=math.cos(yaw),math.sin(yaw)
        pts=[];ins=[]
        for u,v,z in itertools.product(rel,rel,rel):
            a,b=u*sc*l/2,v*sc*w/2
            pts.append((x+c*a-s*b,y+s*a+c*b,0.7+z*h/2)); ins.append(abs(u)<1 and abs(v)<1 and abs(z)<=1)
        pc=np.array(pts); o=box(x,y,yaw,size)
        got_in=o.crop_pointcloud(pc,sc); got_out=o.crop_pointcloud(pc,sc,inside=False)
        exp=pc[np.array(ins)]
        cnt+=1
        if len(got_in)!=len(exp) or not np.allclose(got_in,exp) or len(got_in)+len(got_out)!=len(pc): bad+=1
print("C12 boxes",cnt,"bad",bad)
# C11 TLR
def o2(label,uuid,cam): return DynamicObject2D(100,cam,1.0,Label(label,label.value,[]),roi=None,uuid=uuid)
E=[o2(TrafficLightLabel.GREEN,"u1",FrameID.CAM_TRAFFIC_LIGHT),o2(TrafficLightLabel.RED,"u2",FrameID.CAM_TRAFFIC_LIGHT)]
G=[o2(TrafficLightLabel.RED,"u1",FrameID.CAM_TRAFFIC_LIGHT),o2(TrafficLightLabel.GREEN,"u2",FrameID.CAM_TRAFFIC_LIGHT)]
for first in (False,True):
    r=get_object_results(EvaluationTask.CLASSIFICATION2D,E,G,uuid_matching_first=first)
    print("TLR first",first,[(x.estimated_object.uuid,x.ground_truth_object.uuid if x.ground_truth_object else None,x.is_label_correct) for x in r])
E=[o2(AutowareLabel.CAR,"u1",FrameID.CAM_FRONT),o2(AutowareLabel.CAR,"u3",FrameID.CAM_FRONT)]; G=[o2(AutowareLabel.PEDESTRIAN,"u1",FrameID.CAM_FRONT),o2(AutowareLabel.CAR,"u1",FrameID.CAM_BACK)]
r=get_object_results(EvaluationTask.CLASSIFICATION2D,E,G)
print("ID",[(x.estimated_object.uuid,x.ground_truth_object.uuid if x.ground_truth_object else None,x.is_label_correct) for x in r])
