import time, math, warnings, logging, tempfile, copy
warnings.filterwarnings("ignore"); logging.disable(logging.CRITICAL)
import numpy as np
from pyquaternion import Quaternion
from perception_eval.common.object import DynamicObject
from perception_eval.common.label import Label, AutowareLabel
from perception_eval.common.schema import FrameID
from perception_eval.common.shape import Shape, ShapeType
from perception_eval.common.dataset import FrameGroundTruth
from perception_eval.common.transform import HomogeneousMatrix
from perception_eval.config import PerceptionEvaluationConfig, SensingEvaluationConfig
from perception_eval.manager import PerceptionEvaluationManager, SensingEvaluationManager
from perception_eval.evaluation.result.perception_frame_config import CriticalObjectFilterConfig, PerceptionPassFailConfig
from perception_eval.evaluation.result.perception_frame_result import PerceptionFrameResult, get_object_status
from perception_eval.evaluation.result.object_result import get_object_results
from perception_eval.tool import PerceptionAnalyzer3D

def obj(x,y,yaw=0.0,label=AutowareLabel.CAR,score=0.9,frame=FrameID.BASE_LINK,size=(1.0,2.0,1.0),uuid=None):
    return DynamicObject(unix_time=100, frame_id=frame, position=(x,y,0.0), orientation=Quaternion(axis=[0,0,1], angle=yaw),
        shape=Shape(ShapeType.BOUNDING_BOX, size), velocity=(0.,0.,0.), semantic_score=score, semantic_label=Label(label, label.value, []), uuid=uuid, pointcloud_num=10)
cfg = {"evaluation_task": "detection", "target_labels": ["car","pedestrian"], "max_x_position": 100.0, "max_y_position": 100.0,
  "min_point_numbers":[0,0], "label_prefix":"autoware", "center_distance_thresholds":[1.0], "plane_distance_thresholds":[1.0], "iou_2d_thresholds":[0.5], "iou_3d_thresholds":[0.5]}
t=time.time()
ec = PerceptionEvaluationConfig(["/nonexistent"], "base_link", tempfile.mkdtemp(dir="/tmp/probe"), cfg)
print("config", time.time()-t)
ests=[obj(5,0,uuid="e1"), obj(10,3,uuid="e2"), obj(30,0,uuid="e3")]
gts=[obj(5.2,0,uuid="g1"), obj(10,6,uuid="g2"), obj(-20,0,uuid="g3")]
ego2map = HomogeneousMatrix((0,0,0),(1,0,0,0),FrameID.BASE_LINK,FrameID.MAP)
fg = FrameGroundTruth(100, "0", gts, transforms=[ego2map])
res = get_object_results(ec.evaluation_task, ests, gts, ec.target_labels)
crit = CriticalObjectFilterConfig(ec, ["car","pedestrian"], max_x_position_list=[50.0,50.0], max_y_position_list=[50.0,50.0])
pf = PerceptionPassFailConfig(ec, ["car","pedestrian"], matching_threshold_list=[1.0,1.0])
t=time.time()
fr_ = PerceptionFrameResult(res, fg, ec.metrics_config, crit, pf, 100, ec.target_labels); fr_.evaluate_frame()
print("frame eval", time.time()-t)
p = fr_.pass_fail_result
print("results",len(fr_.object_results),"gt",len(fr_.frame_ground_truth.objects),"tp",len(p.tp_object_results),"fp",len(p.fp_object_results),"fn",len(p.fn_objects),"tn",len(p.tn_objects))
t=time.time()
an = PerceptionAnalyzer3D(ec, 1)
an.add([fr_])
print("analyzer", time.time()-t)
print("num_gt", an.num_ground_truth, "num_est", an.num_estimation, "tp",an.num_tp,"fp",an.num_fp,"fn",an.num_fn,"tn",an.num_tn)
st = get_object_status([fr_])
print([(s.uuid, s.total_frame_nums, s.tp_frame_nums, s.fp_frame_nums, s.fn_frame_nums) for s in st])
t=time.time(); r = an.analyze(); print("analyze", time.time()-t); print(r.score); print(r.confusion_matrix)
# sensing manager
t=time.time()
sc = SensingEvaluationConfig(["/tmp/probe/ds"], "base_link", tempfile.mkdtemp(dir="/tmp/probe"), {"evaluation_task":"sensing","box_scale_0m":1.0,"box_scale_100m":1.0,"min_points_threshold":1,"target_uuids":None})
sm = SensingEvaluationManager(sc); print("sensing mgr", time.time()-t)
g = sm.ground_truth_frames[0]
pc = np.array([[20.0,-2.0,0.5,1.0],[50,50,0,1.0],[5.0,-8.0,0.5,1.0]])
r = sm.add_frame_result(g.unix_time, g, pc, [[(40,40,-1),(60,40,-1),(60,60,-1),(40,60,-1),(40,40,2),(60,40,2),(60,60,2),(40,60,2)]])
print(len(r.detection_success_results), len(r.detection_fail_results), len(r.detection_warning_results), [a.tolist() for a in r.pointcloud_failed_non_detection])
