import itertools, math, warnings, logging, time, collections, os
warnings.filterwarnings("ignore"); logging.disable(logging.CRITICAL)
import numpy as np
from pyquaternion import Quaternion
from perception_eval.common.object import DynamicObject
from perception_eval.common.object2d import DynamicObject2D
from perception_eval.common.label import Label, AutowareLabel as A, TrafficLightLabel as T
from perception_eval.common.schema import FrameID, Visibility
from perception_eval.common.shape import Shape, ShapeType
from perception_eval.common.evaluation_task import EvaluationTask
from perception_eval.evaluation.result.object_result import get_object_results
from perception_eval.evaluation.sensing.sensing_frame_config import SensingFrameConfig
from perception_eval.evaluation.sensing.sensing_frame_result import SensingFrameResult
from perception_eval.common.point import crop_pointcloud
# ---- C11
def o2(label,uuid,cam): return DynamicObject2D(100,cam,1.0,Label(label,label.value,[]),roi=None,uuid=uuid)
CAMS=[FrameID.CAM_TRAFFIC_LIGHT,FrameID.CAM_TRAFFIC_LIGHT_NEAR]; UU=["u1","u2","u3"]
slots=[(u,c) for u in UU for c in CAMS]
def sets(maxn,labels):
    for n in range(0,maxn+1):
        for sel in itertools.combinations(slots,n):
            for labs in itertools.product(labels,repeat=n): yield [(u,c,l) for (u,c),l in zip(sel,labs)]
def best(E,G,first):
    # brute force max label-correct over admissible one-to-one pairings
    def ok(e,g): return e[1]==g[1] and ((e[2]==g[2] and (not first or e[0]==g[0])) or e[0]==g[0])
    bestv=0
    def rec(i,used,val):
        nonlocal bestv
        if i==len(E): bestv=max(bestv,val); return
        rec(i+1,used,val)
        for j,g in enumerate(G):
            if j not in used and ok(E[i],g): rec(i+1,used|{j},val+(E[i][2]==g[2]))
    rec(0,frozenset(),0); return bestv
n=0; iss=collections.Counter(); t0=time.time()
ES=list(sets(2,(T.GREEN,T.RED,T.UNKNOWN))); 
for E in ES:
  for G in ES:
    for first in (False,True):
        eo=[o2(l,u,c) for u,c,l in E]; go=[o2(l,u,c) for u,c,l in G]
        try: R=get_object_results(EvaluationTask.CLASSIFICATION2D,eo,go,uuid_matching_first=first)
        except Exception as ex: iss["exc:"+type(ex).__name__]+=1; continue
        n+=1
        pe=[];pg=[];correct=0
        for r in R:
            i=[k for k,x in enumerate(eo) if x is r.estimated_object][0]; pe.append(i)
            if r.ground_truth_object is not None:
                j=[k for k,x in enumerate(go) if x is r.ground_truth_object][0]; pg.append(j)
                e,g=E[i],G[j]
                if e[1]!=g[1]: iss["cross_camera"]+=1
                if not ((e[2]==g[2] and (not first or e[0]==g[0])) or e[0]==g[0]): iss["inadmissible"]+=1
                correct+=e[2]==g[2]
        if len(set(pe))!=len(pe) or len(set(pg))!=len(pg): iss["not_one_to_one"]+=1
        if E and G and correct!=best(E,G,first): iss["not_max_label_correct"]+=1
        for i,e in enumerate(E):
            for j,g in enumerate(G):
                if i not in pe and j not in pg and e[0]==g[0] and e[1]==g[1]: iss["uuid_pair_left"]+=1
print("C11",n,dict(iss),round(time.time()-t0,1),"s")
# ---- C12 frame result
def box(x,y,yaw,size,vis,uuid): return DynamicObject(100,FrameID.BASE_LINK,(x,y,0.7),Quaternion(axis=(0,0,1),angle=yaw),Shape(ShapeType.BOUNDING_BOX,size),None,1.0,Label(A.CAR,"car",[]),uuid=uuid,visibility=vis)
def inbox(p,b,sc):
    x,y,yaw,(w,l,h)=b; c,s=math.cos(-yaw),math.sin(-yaw); dx,dy=p[0]-x,p[1]-y; u,v=c*dx-s*dy,s*dx+c*dy
    return abs(u)<sc*l/2 and abs(v)<sc*w/2 and abs(p[2]-0.7)<=h/2
def inpoly(p,poly):
    c=False; n_=len(poly)
    for i in range(n_):
        (x1,y1),(x2,y2)=poly[i],poly[(i+1)%n_]
        if (y1>p[1])!=(y2>p[1]) and p[0]<(x2-x1)*(p[1]-y1)/(y2-y1)+x1: c=not c
    return c
B=[(5.013,1.029,0.4,(2,4,1.5)),(12.0,-6.0,-1.1,(1,1,1)),(40.0,30.0,2.0,(2,4,1.5))]
POLYS=[[(0,-10),(20,-10),(20,10),(0,10)],[(0,10),(20,10),(20,-10),(0,-10)],[(0,0),(30,-12),(30,12)],[(0,-8),(16,-8),(16,0),(8,0),(8,8),(0,8)]]
xs=np.arange(-2.05,45,1.37); ys=np.arange(-12.03,35,1.21); zs=[-3.0,0.2,0.9,4.0]
PC=np.array([(x,y,z,1.0) for x in xs for y in ys for z in zs]); iss=collections.Counter(); n=0
for sel in [s for k in range(0,4) for s in itertools.combinations(range(3),k)]:
  for viss in itertools.product((Visibility.FULL,Visibility.NONE,None),repeat=len(sel)):
    for s0,s100,minp in [(1.0,1.0,1),(1.3,1.3,3),(1.0,1.5,1),(0.8,0.8,200)]:
      gts=[box(*B[i],viss[k],f"g{i}") for k,i in enumerate(sel)]
      cfg=SensingFrameConfig(None,s0,s100,minp); fr=SensingFrameResult(cfg,100,"0")
      nd=[]
      for poly in POLYS:
          area=[(x,y,-1.0) for x,y in poly]+[(x,y,2.0) for x,y in poly]
          nd.append(crop_pointcloud(PC,area))
      fr.evaluate_frame(gts,PC,nd); n+=1
      allr=fr.detection_success_results+fr.detection_fail_results+fr.detection_warning_results
      if sorted(id(r.ground_truth_object) for r in allr)!=sorted(id(g) for g in gts): iss["classified_not_once"]+=1
      for r in allr:
          i=int(r.ground_truth_object.uuid[1:]); sc=s0+0.01*(s100-s0)*math.sqrt(B[i][0]**2+B[i][1]**2+0.7**2)
          cnt=sum(inbox(p,B[i],sc) for p in PC)
          if cnt!=r.inside_pointcloud_num: iss["count"]+=1
          want="warn" if r.ground_truth_object.visibility==Visibility.NONE else ("ok" if cnt>=minp else "fail")
          got="warn" if r in fr.detection_warning_results else ("ok" if r in fr.detection_success_results else "fail")
          if want!=got: iss["class"]+=1
      k=0
      for pi,poly in enumerate(POLYS):
          exp=[tuple(p) for p in PC if inpoly(p,poly) and -1.0<=p[2]<=2.0 and not any(inbox(p,B[i],s0+0.01*(s100-s0)*math.sqrt(B[i][0]**2+B[i][1]**2+0.7**2)) for i in sel)]
          if exp:
              got=[tuple(p) for p in fr.pointcloud_failed_non_detection[k]]; k+=1
              if sorted(got)!=sorted(exp): iss["nondetection"]+=1
      if k!=len(fr.pointcloud_failed_non_detection): iss["nondetection_extra"]+=1
print("C12",n,"frames",len(PC),"points",dict(iss),round(time.time()-t0,1),"s")
