import time, math, warnings, logging, tempfile, copy, itertools, sys
warnings.filterwarnings("ignore"); logging.disable(logging.CRITICAL)
import numpy as np
from pyquaternion import Quaternion
from perception_eval.common.object import DynamicObject
from perception_eval.common.label import Label, AutowareLabel
from perception_eval.common.schema import FrameID
from perception_eval.common.shape import Shape, ShapeType
from perception_eval.common.dataset import FrameGroundTruth
from perception_eval.common.transform import HomogeneousMatrix
from perception_eval.config import PerceptionEvaluationConfig
from perception_eval.manager import PerceptionEvaluationManager
from perception_eval.evaluation.result.perception_frame_config import CriticalObjectFilterConfig, PerceptionPassFailConfig
import perception_eval.evaluation.result.perception_frame_result as pfr
import perception_eval.common.object as pobj
PATCH = len(sys.argv)>1
if PATCH:
    src = open(pfr.__file__).read().replace("transform=self.frame_ground_truth.transforms,\n            **self.pass_fail_result", "transforms=self.frame_ground_truth.transforms,\n            **self.pass_fail_result")
    exec(compile(src, pfr.__file__, "exec"), pfr.__dict__)
    import perception_eval.manager.perception_evaluation_manager as pm
    pm.PerceptionFrameResult = pfr.PerceptionFrameResult
    def ghb(self, transforms=None):
        if self.frame_id == FrameID.BASE_LINK: rots = self.state.orientation.yaw_pitch_roll[0]
        else:
            _, rotation = transforms.transform((self.frame_id, FrameID.BASE_LINK), self.state.position, self.state.orientation)
            rots, _, _ = rotation.yaw_pitch_roll
        t = -rots - math.pi/2
        if t > math.pi: t -= 2*math.pi
        if t < -math.pi: t += 2*math.pi
        return t
    pobj.DynamicObject.get_heading_bev = ghb

def mkobj(x,y,yaw,label,score,uuid,frame,ego):
    if frame == FrameID.MAP:
        ex,ey,eyaw = ego
        c,s = math.cos(eyaw), math.sin(eyaw)
        x,y = ex + c*x - s*y, ey + s*x + c*y; yaw = yaw + eyaw
    return DynamicObject(unix_time=100, frame_id=frame, position=(x,y,0.0), orientation=Quaternion(axis=[0,0,1], angle=yaw),
        shape=Shape(ShapeType.BOUNDING_BOX, (2.0,4.0,1.5)), velocity=(0.,0.,0.), semantic_score=score, semantic_label=Label(label, label.value, []), uuid=uuid, pointcloud_num=10)
cfg = {"evaluation_task": "detection", "target_labels": ["car","pedestrian"], "max_x_position": 100.0, "max_y_position": 100.0,
  "min_point_numbers":[0,0], "label_prefix":"autoware", "center_distance_thresholds":[1.0], "plane_distance_thresholds":[1.0], "iou_2d_thresholds":[0.3], "iou_3d_thresholds":[0.3]}
def mgr(fid):
    ec = PerceptionEvaluationConfig(["/tmp/probe/ds"], fid, tempfile.mkdtemp(dir="/tmp/probe"), cfg)
    return PerceptionEvaluationManager(ec)
M = {"base_link": mgr("base_link"), "map": mgr("map")}
P=[(5.013,0.029),(9.041,3.017),(14.0,-7.0),(-4.0,2.5)]
Y=[0.4,-1.1,2.9]
ego=(10.0,-5.0,0.7)
n=bad=0
for gsel in itertools.combinations(range(4),2):
  for esel in itertools.permutations(range(4),2):
    for yg,ye in itertools.product(Y,Y):
      out={}
      for fid,frame in (("base_link",FrameID.BASE_LINK),("map",FrameID.MAP)):
        m=M[fid]; m.frame_results=[]
        gts=[mkobj(P[i][0],P[i][1],yg,AutowareLabel.CAR,1.0,f"g{i}",frame,ego) for i in gsel]
        ests=[mkobj(P[i][0]+0.31,P[i][1]-0.17,ye,AutowareLabel.CAR,0.9-0.1*k,f"e{i}",frame,ego) for k,i in enumerate(esel)]
        e2m=HomogeneousMatrix((ego[0],ego[1],0.0),Quaternion(axis=[0,0,1],angle=ego[2]),FrameID.BASE_LINK,FrameID.MAP)
        fg=FrameGroundTruth(100,"0",gts,transforms=[e2m])
        crit=CriticalObjectFilterConfig(m.evaluator_config,["car","pedestrian"],max_x_position_list=[10.0,10.0],max_y_position_list=[10.0,10.0])
        pf=PerceptionPassFailConfig(m.evaluator_config,["car","pedestrian"],matching_threshold_list=[1.0,1.0])
        r=m.add_frame_result(100,fg,ests,crit,pf)
        p=r.pass_fail_result
        out[fid]=(sorted((x.estimated_object.uuid, x.ground_truth_object.uuid if x.ground_truth_object else None) for x in r.object_results),
                  sorted(x.estimated_object.uuid for x in p.tp_object_results), sorted(x.estimated_object.uuid for x in p.fp_object_results), sorted(x.uuid for x in p.fn_objects),
                  [tuple(round(a.ap,6) for a in mp.aps)+tuple(round(a.ap,6) for a in mp.aphs) for mp in r.metrics_score.maps])
      n+=1
      if out["base_link"]!=out["map"]:
        bad+=1
        if bad<=3: print("DIFF", gsel, esel, yg, ye, "\n  ego", out["base_link"], "\n  map", out["map"])
print("patched" if PATCH else "unpatched", n, "scenes", bad, "differ")
