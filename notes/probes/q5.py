import itertools, math, warnings, logging, time, collections, sys
warnings.filterwarnings("ignore"); logging.disable(logging.CRITICAL)
import numpy as np
from pyquaternion import Quaternion
from perception_eval.common.object import DynamicObject
from perception_eval.common.label import Label, AutowareLabel
from perception_eval.common.schema import FrameID
from perception_eval.common.shape import Shape, ShapeType
from perception_eval.common.evaluation_task import EvaluationTask
from perception_eval.evaluation.result.object_result import get_object_results
from perception_eval.evaluation.matching import MatchingMode, MatchingLabelPolicy, CenterDistanceMatching
A=AutowareLabel
def obj(p,label,uuid,score=0.9):
    return DynamicObject(100,FrameID.BASE_LINK,tuple(p),Quaternion(),Shape(ShapeType.BOUNDING_BOX,(1.,2.,1.)),None,score,Label(label,label.value,[]),uuid=uuid,pointcloud_num=1)
Lc=5.0; anchors=[(0,0,0),(Lc,0,0),(0,Lc,0)]
def tri(r):
    r=list(r)+[10.5]*(3-len(r)); r1,r2,r3=r
    x=(r1*r1-r2*r2+Lc*Lc)/(2*Lc); y=(r1*r1-r3*r3+Lc*Lc)/(2*Lc); return (x,y,math.sqrt(r1*r1-x*x-y*y))
def compat(pol,e,g):
    if g==A.FP or pol==MatchingLabelPolicy.ALLOW_ANY: return True
    if pol==MatchingLabelPolicy.ALLOW_UNKNOWN: return e==g or e==A.UNKNOWN
    return e==g
def ref_greedy(S,C,M,ne,ng):
    pairs={}; ue=set(range(ne)); ug=set(range(ng))
    for stage in (1,2):
        while True:
            cand=[(S[i][j],i,j) for i in ue for j in ug if M[i][j] and (C[i][j] or stage==2)]
            if not cand: break
            s,i,j=min(cand); pairs[i]=j; ue.discard(i); ug.discard(j)
    return pairs
def check(S,C,M,pairs,ne,ng):
    inv={j:i for i,j in pairs.items()}
    for i,j in pairs.items():
        if not M[i][j]: return "unmatchable pair matched"
    for i in range(ne):
        for j in range(ng):
            if not M[i][j] or pairs.get(i)==j: continue
            def good(a,b,need_compat): return C[a][b] if need_compat else True
            ok=False
            if i in pairs:
                jj=pairs[i]
                if C[i][jj] and (S[i][jj]<=S[i][j]+1e-9 or not C[i][j]): ok=True
                if not C[i][j] and S[i][jj]<=S[i][j]+1e-9: ok=True
            if j in inv:
                ii=inv[j]
                if C[ii][j] and (S[ii][j]<=S[i][j]+1e-9 or not C[i][j]): ok=True
                if not C[i][j] and S[ii][j]<=S[i][j]+1e-9: ok=True
            if not ok: return f"blocking pair {(i,j)}"
    return None
n=bad=0; t=time.time(); classes=set()
sizes=[(1,1),(2,1),(1,2),(2,2),(3,2),(2,3)]
if len(sys.argv)>1: sizes.append((3,3))
for ne,ng in sizes:
    cells=ne*ng
    if cells<=4: mats=[p for p in itertools.permutations([10.0+0.1*k for k in range(cells)])]
    else: mats=[tuple((10.0 if b else 10.6)+0.01*k for k,b in enumerate(bits)) for bits in itertools.product((0,1),repeat=cells)]
    elabs=list(itertools.product((A.CAR,A.PEDESTRIAN,A.UNKNOWN) if cells<9 else (A.CAR,A.UNKNOWN),repeat=ne))
    glabs=list(itertools.product((A.CAR,A.PEDESTRIAN,A.FP) if cells<9 else (A.CAR,A.PEDESTRIAN),repeat=ng))
    for flat in mats:
        D=[flat[i*ng:(i+1)*ng] for i in range(ne)]
        for el in elabs:
            for gl in glabs:
                gts=[obj(anchors[j],gl[j],f"g{j}") for j in range(ng)]
                ests=[obj(tri(D[i]),el[i],f"e{i}",0.9-0.1*i) for i in range(ne)]
                S=[[CenterDistanceMatching(e,g).value for g in gts] for e in ests]
                for pol in MatchingLabelPolicy:
                    for rad in (None,[10.3,10.3],[10.3,100.0]):
                        for task in (EvaluationTask.DETECTION,EvaluationTask.FP_VALIDATION):
                            tl=[A.CAR,A.PEDESTRIAN]
                            R=get_object_results(task,ests,gts,tl,pol,MatchingMode.CENTERDISTANCE,rad)
                            n+=1
                            C=[[compat(pol,el[i],gl[j]) for j in range(ng)] for i in range(ne)]
                            def thr(g): return None if rad is None or g not in tl else rad[tl.index(g)]
                            M=[[thr(gl[j]) is None or S[i][j]<thr(gl[j]) for j in range(ng)] for i in range(ne)]
                            pairs={}; err=None; seen_e=[]; seen_g=[]
                            for r in R:
                                i=[k for k,e in enumerate(ests) if e is r.estimated_object]
                                if len(i)!=1 or i[0] in seen_e: err="est identity"; break
                                seen_e.append(i[0])
                                if r.ground_truth_object is not None:
                                    j=[k for k,g in enumerate(gts) if g is r.ground_truth_object]
                                    if len(j)!=1 or j[0] in seen_g: err="gt identity"; break
                                    seen_g.append(j[0]); pairs[i[0]]=j[0]
                                elif task.is_fp_validation(): err="gt-less result in fp validation"
                            if not err and not task.is_fp_validation() and len(R)!=ne: err="count"
                            if not err: err=check(S,C,M,pairs,ne,ng)
                            if not err and pairs!=ref_greedy(S,C,M,ne,ng): err="greedy differs"
                            classes.add((ne,ng,pol.value,task.value,tuple(map(tuple,C)),tuple(map(tuple,M)),tuple(np.argsort(flat))))
                            if err:
                                bad+=1
                                if bad<6: print("BAD",err,D,el,gl,pol,rad,task,pairs)
    print((ne,ng),"done",n,"execs",round(time.time()-t,1),"s")
print(n,"execs",bad,"bad",len(classes),"classes")
