import warnings, logging, re
warnings.filterwarnings("ignore"); logging.disable(logging.CRITICAL)
from perception_eval.common.label import *
from perception_eval.common.label import _get_autoware_pairs, _get_traffic_light_paris
from perception_eval.common.evaluation_task import EvaluationTask
# docs golden
doc = open("/repo/docs/en/perception/label.md").read()
sec = doc.split("### Merge similar labels option")
def parse(tbl):
    cur=None; out={}
    for line in tbl.splitlines():
        m=re.match(r"\|\s*(`AutowareLabel\.(\w+)`)?\s*\|[^|]*\|\s*([^|]*?)\s*\|", line)
        if m:
            if m.group(2): cur=m.group(2)
            name=m.group(3).strip()
            if name and name!="support labels" and not set(name)<=set(":-"): out[name]=cur
    return out
nomerge=parse(sec[0]); merge=parse(sec[1].split("## `TrafficLightLabel`")[0])
for mg,gold in ((False,nomerge),(True,merge)):
    table={n:l for l,n in _get_autoware_pairs(mg)}
    conv=LabelConverter("detection",mg,"autoware")
    for n,l in gold.items():
        got=conv.convert_label(n).label
        if got.name!=l: print("DOC MISMATCH merge",mg,n,"doc",l,"got",got)
    print("merge",mg,"registered not in docs:",sorted(set(table)-set(gold)))
    print("merge",mg,"docs not registered:",sorted(set(gold)-set(table)))
# laws
MERGE={AutowareLabel.TRUCK:AutowareLabel.CAR,AutowareLabel.BUS:AutowareLabel.CAR,AutowareLabel.MOTORBIKE:AutowareLabel.BICYCLE}
c0=LabelConverter("detection",False,"autoware"); c1=LabelConverter("detection",True,"autoware")
for l,n in _get_autoware_pairs(False):
    a=c0.convert_label(n).label; b=c1.convert_label(n).label
    if MERGE.get(a,a)!=b: print("MERGE LAW", n, a, b)
    for v in (n.upper(), n.title()):
        if c0.convert_label(v).label!=a or c0.convert_name(v)!=a: print("CASE", v)
for task in EvaluationTask:
    for prefix,mg in (("autoware",False),("autoware",True),("traffic_light",False)):
        try:
            c=LabelConverter(task,mg,prefix)
        except Exception as e:
            print("CTOR EXC",task,prefix,repr(e)); continue
        names=[li.name for li in c.label_infos]
        dup=[n for n in set(names) if names.count(n)>1]
        if dup: print("DUP",task,prefix,dup)
        image={li.label for li in c.label_infos}
        for L in image:
            got=c.convert_label(L.value).label
            if got!=L: print("CANON",task.value,prefix,mg,L,"->",got)
        for li in c.label_infos:
            if c.convert_label(li.name).label!=c.convert_name(li.name): print("ENTRY DISAGREE",task,li.name)
# str task argument path
c=LabelConverter("classification2d",False,"traffic_light"); print("str task:", c.convert_label("green").label)
for s in ["", "foo", "car ", " CAR", "vehicle", None]:
    try: print(repr(s), c0.convert_label(s).label)
    except Exception as e: print(repr(s), "EXC", repr(e))
