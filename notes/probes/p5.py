import time, math, warnings, logging, itertools
warnings.filterwarnings("ignore"); logging.disable(logging.CRITICAL)
import numpy as np
from pyquaternion import Quaternion
from perception_eval.common.object import DynamicObject
from perception_eval.common.label import Label, AutowareLabel
from perception_eval.common.schema import FrameID
from perception_eval.common.shape import Shape, ShapeType
from perception_eval.common.evaluation_task import EvaluationTask
from perception_eval.evaluation.result.object_result import get_object_results, DynamicObjectWithPerceptionResult
from perception_eval.evaluation.matching import MatchingMode, CenterDistanceMatching
from perception_eval.evaluation.metrics.tracking.clear import CLEAR
def obj(p,yaw=0.0,label=AutowareLabel.CAR,score=0.9,uuid=None):
    return DynamicObject(unix_time=100, frame_id=FrameID.BASE_LINK, position=tuple(p), orientation=Quaternion(axis=[0,0,1], angle=yaw),
        shape=Shape(ShapeType.BOUNDING_BOX, (1.,2.,1.)), velocity=None, semantic_score=score, semantic_label=Label(label, label.value, []), uuid=uuid, pointcloud_num=10)
L=5.0
anchors=[(0,0,0),(L,0,0),(0,L,0)]
def tri(r):
    r1,r2,r3=r
    x=(r1*r1-r2*r2+L*L)/(2*L); y=(r1*r1-r3*r3+L*L)/(2*L); z2=r1*r1-x*x-y*y
    assert z2>0; return (x,y,math.sqrt(z2))
M=[[10.0,10.9,10.3],[10.8,10.1,10.5],[10.2,10.7,10.6]]
gts=[obj(a,uuid=f"g{j}") for j,a in enumerate(anchors)]
ests=[obj(tri(row),uuid=f"e{i}") for i,row in enumerate(M)]
print([[round(CenterDistanceMatching(e,g).value,12) for g in gts] for e in ests])
res=get_object_results(EvaluationTask.DETECTION, ests, gts)
print([(r.estimated_object.uuid, r.ground_truth_object.uuid if r.ground_truth_object else None) for r in res])
# CLEAR timing
pool={}
def R(e,g,near):
    k=(e,g,near)
    if k not in pool:
        eo=obj((0,0,0),uuid=e); go=None if g is None else obj((0.3 if near else 5.0,0,0),uuid=g)
        pool[k]=DynamicObjectWithPerceptionResult(eo,go)
    return pool[k]
frames=[[R("a","x",True),R("b","y",True)],[R("a","y",True),R("b","x",False)],[R("a","x",True)]]
t=time.time()
for _ in range(2000):
    c=CLEAR([[]]+frames, 5, [AutowareLabel.CAR], MatchingMode.CENTERDISTANCE, [1.0])
print("CLEAR ms", (time.time()-t)/2000*1000, c.results)
