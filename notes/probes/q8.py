import itertools, math, warnings, logging, time, collections, sys, copy
warnings.filterwarnings("ignore"); logging.disable(logging.CRITICAL)
import numpy as np
from pyquaternion import Quaternion
import perception_eval.common.dataset as ds
from perception_eval.common.dataset import FrameGroundTruth
from perception_eval.common.object import DynamicObject
from perception_eval.common.label import Label, AutowareLabel
from perception_eval.common.schema import FrameID
from perception_eval.common.shape import Shape, ShapeType
from perception_eval.common.transform import HomogeneousMatrix
PATCH=len(sys.argv)>1
if PATCH:
    src=open(ds.__file__).read().replace("            after_frame = ground_truth_frame\n            dt_after = -diff_time\n","            after_frame = ground_truth_frame\n            dt_after = -diff_time\n            break\n")
    exec(compile(src,ds.__file__,"exec"),ds.__dict__)
def R2(a): return np.array([[math.cos(a),-math.sin(a)],[math.sin(a),math.cos(a)]])
def obj(x,y,yaw,uuid,frame,ego,neg=False):
    # (x,y,yaw) is the GLOBAL pose; express in requested frame
    if frame==FrameID.BASE_LINK:
        ex,ey,a=ego; v=R2(-a)@np.array([x-ex,y-ey]); x,y,yaw=v[0],v[1],yaw-a
    q=Quaternion(axis=[0,0,1],angle=yaw); q=-q if neg else q
    return DynamicObject(0,frame,(float(x),float(y),0.0),q,Shape(ShapeType.BOUNDING_BOX,(1,2,1)),(1.0,0.0,0.0),1.0,Label(AutowareLabel.CAR,"car",[]),uuid=uuid,pointcloud_num=5)
def fr(t,objs,ego):
    m=HomogeneousMatrix((ego[0],ego[1],0.0),Quaternion(axis=[0,0,1],angle=ego[2]),FrameID.BASE_LINK,FrameID.MAP)
    return FrameGroundTruth(t,str(t),objs,transforms=[m])
TIMES=[0,100000,250000]
EGO=[(0,0,0),(10,2,0.5),(25,5,-2.9)]
POSE={"A":[(1,0,3.0),(2,1,-3.0),(4,1,-2.0)],"B":[(5,5,0.1),(6,5,0.4),(7,7,0.9)],"C":[(-3,2,-1.0),(-3,3,1.5),(-2,3,2.0)]}
def wrapd(a,b): return abs((a-b+math.pi)%(2*math.pi)-math.pi)
def gpose(o,frame_obj):
    # to global using frame transforms
    if o.frame_id=="map" or o.frame_id==FrameID.MAP: return o.state.position[:2], o.state.orientation.yaw_pitch_roll[0]
    M=frame_obj.transforms[(FrameID.BASE_LINK,FrameID.MAP)]
    p,r=M.transform(o.state.position,o.state.orientation); return p[:2], r.yaw_pitch_roll[0]
n=0; issues=collections.Counter(); t0=time.time()
queries=[-120000,-50000,0,30000,50000,70000,100000,175000,250000,300000,400000]
for nfr in (1,2,3):
  times=TIMES[:nfr]
  for pres in itertools.product(itertools.product((0,1),repeat=nfr),repeat=3):   # presence per object per frame
    if nfr==3 and sum(map(sum,pres))<4: continue
    for frame in (FrameID.BASE_LINK,FrameID.MAP):
      for neg in (False,True):
        frames=[fr(times[k],[obj(*POSE[u][k],u,frame,EGO[k],neg and k==1) for ui,u in enumerate("ABC") if pres[ui][k]],EGO[k]) for k in range(nfr)]
        for q in queries:
          for tol in (0,40000,80000,200000):
            n+=1
            near=ds.get_now_frame(frames,q,tol)
            dts=[abs(q-tt) for tt in times]; m=min(dts)
            if m>tol:
                if near is not None: issues["near_should_be_none"]+=1
            else:
                if near is None or abs(q-near.unix_time)!=m: issues["near_wrong"]+=1
            got=ds.get_interpolated_now_frame(frames,q,tol)
            bi=max([k for k in range(nfr) if times[k]<=q],default=None); ai=min([k for k in range(nfr) if times[k]>q],default=None)
            if bi is not None and q-times[bi]==tol and tol!=0: continue
            if ai is not None and times[ai]-q==tol: continue
            b_ok=bi is not None and q-times[bi]<=tol; a_ok=ai is not None and times[ai]-q<=tol
            if not b_ok and not a_ok:
                if got is not None: issues["interp_should_be_none"]+=1
            elif b_ok and not a_ok:
                if got is not frames[bi]: issues["interp_should_be_before"]+=1
            elif a_ok and not b_ok:
                if got is not frames[ai]: issues["interp_should_be_after"]+=1
            else:
                if got is None or got.unix_time!=q: issues["interp_stamp"]+=1; continue
                al=(q-times[bi])/(times[ai]-times[bi])
                ub={o.uuid:o for o in frames[bi].objects}; ua={o.uuid:o for o in frames[ai].objects}
                go={o.uuid:o for o in got.objects}
                if set(go)!=set(ub)|set(ua) or len(got.objects)!=len(go): issues["interp_ids"]+=1; continue
                for u,o in go.items():
                    p,y=gpose(o,got)
                    if u in ub and u in ua:
                        pb,yb=POSE[u][bi][:2],POSE[u][bi][2]; pa,ya=POSE[u][ai][:2],POSE[u][ai][2]
                        ep=(pb[0]+al*(pa[0]-pb[0]),pb[1]+al*(pa[1]-pb[1])); d=(ya-yb+math.pi)%(2*math.pi)-math.pi; ey=yb+al*d
                    else:
                        k=bi if u in ub else ai; ep=POSE[u][k][:2]; ey=POSE[u][k][2]
                    if abs(p[0]-ep[0])>1e-6 or abs(p[1]-ep[1])>1e-6: issues["interp_pos"]+=1
                    if wrapd(y,ey)>1e-6: issues["interp_yaw"]+=1
print("patched" if PATCH else "unpatched", n,"queries",dict(issues),round(time.time()-t0,1),"s")
