import itertools, math, warnings, logging, time, collections, tempfile, sys
warnings.filterwarnings("ignore"); logging.disable(logging.CRITICAL)
import numpy as np
from pyquaternion import Quaternion
from perception_eval.common.object import DynamicObject
from perception_eval.common.label import Label, AutowareLabel
from perception_eval.common.schema import FrameID
from perception_eval.common.shape import Shape, ShapeType
from perception_eval.common.dataset import FrameGroundTruth
from perception_eval.common.transform import HomogeneousMatrix
from perception_eval.config import PerceptionEvaluationConfig
from perception_eval.evaluation.result.perception_frame_config import CriticalObjectFilterConfig, PerceptionPassFailConfig
import perception_eval.evaluation.result.perception_frame_result as pfr
src=open(pfr.__file__).read().replace("transform=self.frame_ground_truth.transforms,\n            **self.pass_fail_result","transforms=self.frame_ground_truth.transforms,\n            **self.pass_fail_result")
exec(compile(src,pfr.__file__,"exec"),pfr.__dict__)
from perception_eval.evaluation.result.object_result import get_object_results
from perception_eval.tool import PerceptionAnalyzer3D
A=AutowareLabel
def mk(x,y,yaw,label,score,uuid,frame,ego):
    if frame==FrameID.MAP:
        ex,ey,a=ego; c,s=math.cos(a),math.sin(a); x,y,yaw=ex+c*x-s*y,ey+s*x+c*y,yaw+a
    return DynamicObject(100,frame,(x,y,0.0),Quaternion(axis=[0,0,1],angle=yaw),Shape(ShapeType.BOUNDING_BOX,(2.0,4.0,1.5)),(1.0,0.5,0.0),score,Label(label,label.value,[]),uuid=uuid,pointcloud_num=10)
cfg={"evaluation_task":"detection","target_labels":["car","pedestrian"],"max_x_position":30.0,"max_y_position":30.0,"min_point_numbers":[0,0],"label_prefix":"autoware","center_distance_thresholds":[1.0],"plane_distance_thresholds":[1.0],"iou_2d_thresholds":[0.3],"iou_3d_thresholds":[0.3]}
ec={f:PerceptionEvaluationConfig(["/x"],f,tempfile.mkdtemp(dir="/tmp/probe2"),cfg) for f in ("base_link","map")}
P=[(5.013,0.029),(9.041,3.017),(14.0,-7.0),(-4.0,2.5),(25.0,25.0)]
ego=(10.0,-5.0,0.7)
def wrap(a): return (a+math.pi)%(2*math.pi)-math.pi
n=0; issues=collections.Counter(); t=time.time()
for nd in (1,3,9):
 for fid,frame in (("base_link",FrameID.BASE_LINK),("map",FrameID.MAP)):
  for gsel in itertools.combinations(range(5),2):
   for esel in itertools.permutations(range(5),2):
    for dy,elab,glab in [(0.2,A.CAR,A.CAR),(-1.3,A.CAR,A.CAR),(0.2,A.PEDESTRIAN,A.CAR),(0.2,A.CAR,A.FP)]:
      c=ec[fid]
      gts=[mk(P[i][0],P[i][1],0.4,glab if k==0 else A.CAR,1.0,f"g{i}",frame,ego) for k,i in enumerate(gsel)]
      ests=[mk(P[i][0]+0.31,P[i][1]-0.17,0.4+dy,elab,0.9-0.1*k,f"e{i}",frame,ego) for k,i in enumerate(esel)]
      e2m=HomogeneousMatrix((ego[0],ego[1],0.0),Quaternion(axis=[0,0,1],angle=ego[2]),FrameID.BASE_LINK,FrameID.MAP)
      fg=FrameGroundTruth(100,"0",gts,transforms=[e2m])
      res=get_object_results(c.evaluation_task,ests,gts,c.target_labels,transforms=fg.transforms)
      crit=CriticalObjectFilterConfig(c,["car","pedestrian"],max_x_position_list=[20.0,20.0],max_y_position_list=[20.0,20.0])
      pf=PerceptionPassFailConfig(c,["car","pedestrian"],matching_threshold_list=[1.0,1.0])
      fr=pfr.PerceptionFrameResult(res,fg,c.metrics_config,crit,pf,100,c.target_labels); fr.evaluate_frame()
      an=PerceptionAnalyzer3D(c,nd); an.add([fr]); n+=1
      p=fr.pass_fail_result
      D=[g for g in p.fn_objects if any(r.ground_truth_object is g for r in p.fp_object_results)]
      if an.num_tp!=len(p.tp_object_results): issues["tp"]+=1
      if an.num_fp!=len(p.fp_object_results): issues["fp"]+=1
      if an.num_fn!=len(p.fn_objects): issues["fn"]+=1
      if an.num_tn!=len(p.tn_objects): issues["tn"]+=1
      if an.num_estimation!=len(fr.object_results): issues["est"]+=1
      exc=an.num_ground_truth-len(fr.frame_ground_truth.objects)
      if exc!=0:
          issues["gt_excess_K1" if exc==len(D) else "gt_other"]+=1
      # pose rows
      df=an.df
      if len(df):
        est_rows=df.xs("estimation",level=1); gt_rows=df.xs("ground_truth",level=1)
        for rows,side in ((est_rows,"e"),(gt_rows,"g")):
          for _,row in rows.iterrows():
            if row["status"] is None or (isinstance(row["status"],float) and math.isnan(row["status"])): continue
            i=int(row["uuid"][1:]); base=P[i]
            ex_x,ex_y=(base[0]+0.31,base[1]-0.17) if side=="e" else base
            ex_yaw=0.4+dy if side=="e" else 0.4
            if abs(row["x"]-ex_x)>1e-6 or abs(row["y"]-ex_y)>1e-6 or abs(wrap(row["yaw"]-ex_yaw))>1e-6: issues["pose_"+fid]+=1
        r=an.analyze()
        if r.confusion_matrix is not None:
            gdf,edf=an.get_pair_results()
            if int(r.confusion_matrix.values.sum())!=len(gdf): issues["cm"]+=1
        sc=r.score
        if sc is not None:
            v=sc[["TP","FP","TN","FN"]].values
            if ((v<0)|(v>1)).any(): issues["rate_out_of_range"]+=1
print(n,"cases",dict(issues),time.time()-t,"s")
