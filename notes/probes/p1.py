import time, math, warnings
warnings.filterwarnings("ignore")
import numpy as np
from pyquaternion import Quaternion
from perception_eval.common.object import DynamicObject
from perception_eval.common.label import Label, AutowareLabel, LabelConverter, TrafficLightLabel
from perception_eval.common.schema import FrameID, Visibility, SensorModality
from perception_eval.common.shape import Shape, ShapeType
from perception_eval.common.evaluation_task import EvaluationTask
from perception_eval.evaluation.result.object_result import get_object_results, DynamicObjectWithPerceptionResult
from perception_eval.evaluation.matching import MatchingMode
from perception_eval.evaluation.metrics.detection.tp_metrics import TPMetricsAph

def obj(x,y,yaw=0.0,label=AutowareLabel.CAR,score=0.9,frame=FrameID.BASE_LINK,size=(1.0,2.0,1.0),uuid=None, neg=False):
    q = Quaternion(axis=[0,0,1], angle=yaw)
    if neg: q = -q
    return DynamicObject(unix_time=100, frame_id=frame, position=(x,y,0.0), orientation=q,
        shape=Shape(ShapeType.BOUNDING_BOX, size), velocity=None, semantic_score=score,
        semantic_label=Label(label, label.value, []), uuid=uuid, pointcloud_num=10)

# C20
for f,arg in [(FrameID.from_value,"RADAR_BACK"),(Visibility.from_value,"full"),(SensorModality.from_value,"lidar"),(ShapeType.from_value,"bounding_box")]:
    try: print(f.__qualname__, repr(f(arg)))
    except Exception as e: print(f.__qualname__, "EXC", repr(e))
try:
    s = Shape("bounding_box",(1,2,3)); print("Shape type", repr(s.type), s.type==ShapeType.BOUNDING_BOX)
except Exception as e: print("Shape EXC", repr(e))

# C14
c = LabelConverter(EvaluationTask.CLASSIFICATION2D, False, "traffic_light")
print(c.convert_label("yellow_straight_right").label, c.convert_label("yellow_straight_left_right").label)

# C09
for yg, ye in [(0.5,-0.5),(-0.5,-0.5),(0.5,0.5),(-1.0, 1.0), (3.0,-3.0)]:
    r = DynamicObjectWithPerceptionResult(obj(0,0,ye), obj(0,0,yg))
    print("yaw gt",yg,"est",ye,"aph", TPMetricsAph().get_value(r), "heading_error", r.heading_error[2])

# C01 empty gt FP validation
try:
    print(get_object_results(EvaluationTask.FP_VALIDATION, [obj(0,0)], []))
except Exception as e: print("FPVAL EXC", repr(e))

# timing
ests=[obj(i*3.0,0.1*i,0.1*i) for i in range(3)]; gts=[obj(i*3.0+0.5,0,0) for i in range(3)]
for mode in MatchingMode:
    t=time.time()
    for _ in range(200): get_object_results(EvaluationTask.DETECTION, ests, gts, matching_mode=mode)
    print(mode, (time.time()-t)/200*1000,"ms")
