import itertools, copy, collections
from numbers import Real
from perception_eval.common.threshold import set_thresholds
LEAF=[1.0, 2, "x", None]
def flat_lists(maxlen, leaves):
    for n in range(maxlen+1):
        for t in itertools.product(leaves, repeat=n): yield list(t)
FL=list(flat_lists(3,[1.0,2,"x"]))
ELEMS=[1.0,"x"]+FL
def specs():
    for l in LEAF: yield l
    for f in flat_lists(3,LEAF): yield f
    for n in range(0,4):
        for t in itertools.product(range(len(ELEMS)), repeat=n):
            yield [copy.copy(ELEMS[i]) for i in t]
def isnum(x): return isinstance(x,Real) and not isinstance(x,bool)
def ref(spec,n,nest):
    """returns normalised value or raises ValueError"""
    if not nest:
        if isnum(spec): return [spec]*n
        if not isinstance(spec,list) or not spec or not all(isnum(t) for t in spec): raise ValueError
        if len(spec)==1: return spec*n
        if len(spec)==n: return list(spec)
        raise ValueError
    if isnum(spec): return [[spec]*n]
    if not isinstance(spec,list) or not spec: raise ValueError
    if all(isnum(t) for t in spec):
        return [list(spec)] if len(spec)==n else [[t]*n for t in spec]
    if all(isinstance(t,list) for t in spec):
        out=[]
        for t in spec:
            if not t or not all(isnum(e) for e in t): raise ValueError
            if len(t)==1: out.append(t*n)
            elif len(t)==n: out.append(list(t))
            else: raise ValueError
        return out
    raise ValueError
stats=collections.Counter(); shown=collections.Counter()
cnt=0
for spec in specs():
    for n in (1,2,3):
        for nest in (False,True):
            cnt+=1
            s1=copy.deepcopy(spec)
            try: exp=("ok",ref(spec,n,nest))
            except ValueError: exp=("err",None)
            try: got=("ok",set_thresholds(s1,n,nest))
            except Exception as e: got=("err",type(e).__name__)
            if exp[0]!=got[0] or (exp[0]=="ok" and exp[1]!=got[1]):
                kind=(exp[0],got[0])
                stats[kind]+=1
                if shown[kind]<6: shown[kind]+=1; print("DIFF",repr(spec),n,nest,"exp",exp,"got",got)
            elif got[0]=="ok":
                # idempotence + shape
                again=set_thresholds(copy.deepcopy(got[1]),n,nest)
                if again!=got[1]: stats["idem"]+=1
                rows=got[1] if nest else [got[1]]
                if any(len(r)!=n for r in rows): stats["shape"]+=1
                stats["ok"]+=1
            else: stats["err_ok"]+=1
print(cnt, dict(stats))
