import time, math, warnings, logging, tempfile, copy
warnings.filterwarnings("ignore")
logging.disable(logging.CRITICAL)
import numpy as np
from pyquaternion import Quaternion
from perception_eval.common.object import DynamicObject
from perception_eval.common.label import Label, AutowareLabel
from perception_eval.common.schema import FrameID
from perception_eval.common.shape import Shape, ShapeType
from perception_eval.config import PerceptionEvaluationConfig
from perception_eval.manager import PerceptionEvaluationManager
from perception_eval.evaluation.result.perception_frame_config import CriticalObjectFilterConfig, PerceptionPassFailConfig

def mk(task, frame_id, root="/tmp/probe/ds"):
    cfg = {"evaluation_task": task, "target_labels": ["car","pedestrian"], "max_x_position": 100.0, "max_y_position": 100.0,
      "min_point_numbers":[0,0], "label_prefix":"autoware", "merge_similar_labels":False, "allow_matching_unknown":False,
      "center_distance_thresholds":[1.0], "plane_distance_thresholds":[1.0], "iou_2d_thresholds":[0.5], "iou_3d_thresholds":[0.5]}
    t=time.time()
    ec = PerceptionEvaluationConfig([root], frame_id, tempfile.mkdtemp(dir="/tmp/probe"), cfg, load_raw_data=False)
    m = PerceptionEvaluationManager(ec)
    print("manager build", time.time()-t)
    return m

for task, fid in [("detection","base_link"),("detection","map"),("tracking","map")]:
    m = mk(task, fid)
    gt = m.ground_truth_frames[0]
    print(task, fid, [ (o.uuid, o.state.position) for o in gt.objects])
    # estimates = copies of GT + a far one outside critical region
    ests = []
    for o in gt.objects:
        e = copy.deepcopy(o); e.semantic_score = 0.8; e.uuid = "e"+o.uuid; ests.append(e)
    crit = CriticalObjectFilterConfig(m.evaluator_config, ["car","pedestrian"], max_x_position_list=[10.0,10.0], max_y_position_list=[10.0,10.0])
    pf = PerceptionPassFailConfig(m.evaluator_config, ["car","pedestrian"], matching_threshold_list=[1.0,1.0])
    t=time.time()
    r = m.add_frame_result(gt.unix_time, gt, ests, crit, pf)
    print(" add_frame_result", time.time()-t, "s")
    print(" results", len(r.object_results), "gt", len(r.frame_ground_truth.objects), "tp", len(r.pass_fail_result.tp_object_results), "fp", len(r.pass_fail_result.fp_object_results), "fn", len(r.pass_fail_result.fn_objects))
    print(" AP", [(mp.matching_mode.value, [a.ap for a in mp.aps], mp.map) for mp in r.metrics_score.maps])
    print(" dataset gt now", len(m.ground_truth_frames[0].objects))
    s = m.get_scene_result()
    print(" scene map", [mp.map for mp in s.maps], "num_gt", s.num_ground_truth)
